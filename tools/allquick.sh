#!/bin/bash
# usage: allquick.sh <seed> [out]   runs all 20 quick checks sequentially
cd /verif
for i in $(seq -w 1 20); do
  p=C$i
  s=$(date +%s)
  out=$(env VERIF_SEED=$1 ${2:+VERIF_OUT=$2} ./check $p --tier quick 2>&1)
  rc=$?
  e=$(date +%s)
  echo "$p rc=$rc t=$((e-s))s $(echo "$out" | grep -c '^VIOLATION') viol; $(echo "$out" | grep SUMMARY | sed 's/.*cases=/cases=/' | cut -c1-150)"
done

#!/venv/bin/python
"""Regenerates the generated blocks of DESIGN.md (between <!-- gen:NAME --> and <!-- /gen:NAME -->):
   fixes      - the fix: commits of /repo with the property whose check exhibited them
   findings   - known findings (status known)
   seeded     - seeded changes and which checks detect them
"""
import glob
import json
import os
import re
import subprocess

VERIF = os.path.dirname(os.path.dirname(os.path.abspath(__file__)))


def fixes():
    kf = json.load(open(os.path.join(VERIF, 'known_findings.json')))['findings']
    by_commit = {}
    for e in kf:
        if e.get('status') == 'fixed':
            by_commit.setdefault(e['commit'], []).append(e)
    log = subprocess.check_output(['git', '-C', '/repo', 'log', '--reverse', '--format=%h %s']).decode().splitlines()
    rows = ["| commit | property | obligation family | what failed on the pinned tree |", "|---|---|---|---|"]
    n = 0
    for l in log:
        h, msg = l.split(' ', 1)
        if not msg.startswith('fix:'):
            continue
        n += 1
        es = by_commit.get(h, [])
        if not es:
            rows.append("| %s | ? | ? | %s |" % (h, msg))
        for e in es:
            what = e['record'].split(h, 1)[1].strip() if h in e['record'] else e['record']
            rows.append("| %s | %s | `%s` | %s |" % (h, e['property'], e['obligation'], what.replace('|', '\\|')))
    return "%d `fix:` commits:\n\n" % n + "\n".join(rows)


def findings():
    kf = json.load(open(os.path.join(VERIF, 'known_findings.json')))['findings']
    out = []
    for e in kf:
        if e.get('status') == 'known':
            out.append("* **%s** (`%s`, when %s): %s" % (e['id'], e['obligation'], json.dumps(e.get('when', {})), e['description']))
    return "\n".join(out)


def seeded():
    rows = ["| seeded change | breaks | site / mechanism (from the author's notes) | repo tests | demo | detected by (quick) |",
            "|---|---|---|---|---|---|"]
    tot = det = 0
    for d in sorted(glob.glob(os.path.join(VERIF, 'seeded', '*'))):
        mp = os.path.join(d, 'meta.json')
        if not os.path.exists(mp):
            continue
        m = json.load(open(mp))
        notes = ''
        np_ = os.path.join(d, 'notes.md')
        if os.path.exists(np_):
            txt = open(np_).read()
            mm = re.search(r'geomdl/[\w/\.]+', txt)
            notes = mm.group(0) if mm else ''
        if m.get('summary'):
            notes = m['summary']
        tests = next((r.get('result', '') for r in m['ran'] if 'test suite' in r['cmd']), '')
        demo = [r.get('exit') for r in m['ran'] if r['cmd'].startswith('demo.py')]
        tot += 1
        det += 1 if m.get('detected_by') else 0
        rows.append("| %s | %s | %s | %s | pass→fail %s | %s |" % (
            m['id'], m['breaks_property'], notes, '222 passed' if '222 passed' in tests else tests, demo,
            ', '.join(m.get('detected_by') or []) or '**missed**'))
    return "%d seeded changes filed, %d detected by at least one quick check.\n\n" % (tot, det) + "\n".join(rows)


def main():
    p = os.path.join(VERIF, 'DESIGN.md')
    s = open(p).read()
    for name, fn in (('fixes', fixes), ('findings', findings), ('seeded', seeded)):
        pat = re.compile(r'(<!-- gen:%s -->).*?(<!-- /gen:%s -->)' % (name, name), re.S)
        if pat.search(s):
            s = pat.sub(lambda m: m.group(1) + "\n" + fn() + "\n" + m.group(2), s)
    open(p, 'w').write(s)


if __name__ == '__main__':
    main()

#!/venv/bin/python
"""Evaluate a seeded change: tools/seed_eval.py <patch.diff> [--props C01,C12] [--tier quick] [--tests]

Creates a scratch worktree of /repo HEAD under /tmp, applies the patch, optionally runs the
repository's own test suite there (must still pass), then runs the registered quick checks with
VERIF_REPO pointing at the worktree and reports which properties raise a VIOLATION.  The worktree
is removed afterwards.  Nothing is written to /repo's working tree.
"""
import argparse
import json
import os
import shutil
import subprocess
import sys
import tempfile

VERIF = os.path.dirname(os.path.dirname(os.path.abspath(__file__)))


def sh(cmd, **kw):
    return subprocess.run(cmd, shell=True, stdout=subprocess.PIPE, stderr=subprocess.STDOUT, universal_newlines=True, **kw)


def main():
    ap = argparse.ArgumentParser()
    ap.add_argument('patch')
    ap.add_argument('--props', default='')
    ap.add_argument('--tier', default='quick')
    ap.add_argument('--tests', action='store_true')
    ap.add_argument('--keep', action='store_true')
    ap.add_argument('--seed', default='0')
    args = ap.parse_args()
    wt = tempfile.mkdtemp(prefix='seedwt-', dir='/tmp')
    os.rmdir(wt)
    r = sh('git -C /repo worktree add -q %s HEAD' % wt)
    if r.returncode:
        print(r.stdout)
        return 2
    result = dict(patch=args.patch, detected_by=[], silent=[], tests=None)
    try:
        r = sh('git -C %s apply %s' % (wt, os.path.abspath(args.patch)))
        if r.returncode:
            print("patch does not apply:\n" + r.stdout)
            return 2
        if args.tests:
            r = sh('cd %s && PYTHONPATH=%s /venv/bin/python -m pytest -q -p no:cacheprovider --timeout=900 '
                   '--continue-on-collection-errors tests 2>&1 | tail -3' % (wt, wt))
            result['tests'] = r.stdout.strip().splitlines()[-1] if r.stdout.strip() else ''
            print("repo tests:", result['tests'])
        man = json.load(open(os.path.join(VERIF, 'MANIFEST.json')))
        props = [c['property_id'] for c in man['checks']]
        if args.props:
            props = [p for p in args.props.split(',') if p]
        for p in props:
            env = dict(os.environ, VERIF_REPO=wt, VERIF_SEED=args.seed, VERIF_OUT=wt + '-out')
            r = subprocess.run([os.path.join(VERIF, 'check'), p, '--tier', args.tier], env=env, stdout=subprocess.PIPE,
                               stderr=subprocess.STDOUT, universal_newlines=True, cwd=VERIF)
            viol = [l for l in r.stdout.splitlines() if l.startswith('VIOLATION')]
            if r.returncode != 0 or viol:
                obls = sorted(set(l.split('obligation=')[1].split()[0] for l in viol if 'obligation=' in l))
                result['detected_by'].append(dict(property=p, obligations=obls))
                print("%s DETECTS (%d obligations): %s" % (p, len(obls), ', '.join(obls[:6])))
                if not viol:
                    print(r.stdout[-800:])
            else:
                result['silent'].append(p)
                print("%s silent" % p)
    finally:
        if not args.keep:
            sh('git -C /repo worktree remove --force %s' % wt)
            shutil.rmtree(wt + '-out', ignore_errors=True)
            shutil.rmtree(wt, ignore_errors=True)
    print(json.dumps(result))
    return 0


if __name__ == '__main__':
    sys.exit(main())

#!/venv/bin/python
"""Re-evaluates every filed seeded change against all registered quick checks and updates
seeded/<id>/meta.json (detected_by, detected_obligations) and seeded/MATRIX.json.

tools/seed_matrix.py [--jobs 3] [--only ID,ID] [--own]      (--own: only the property the change targets)
"""
import argparse
import glob
import json
import os
import subprocess
import sys
from concurrent.futures import ThreadPoolExecutor

VERIF = os.path.dirname(os.path.dirname(os.path.abspath(__file__)))


def one(d, own):
    meta = json.load(open(os.path.join(d, 'meta.json')))
    cmd = [os.path.join(VERIF, 'tools', 'seed_eval.py'), os.path.join(d, 'patch.diff')]
    if own:
        cmd += ['--props', meta['breaks_property']]
    r = subprocess.run(cmd, stdout=subprocess.PIPE, stderr=subprocess.STDOUT, universal_newlines=True)
    try:
        res = json.loads(r.stdout.strip().splitlines()[-1])
    except Exception:
        return meta['id'], None, r.stdout[-400:]
    return meta['id'], res, None


def main():
    ap = argparse.ArgumentParser()
    ap.add_argument('--jobs', type=int, default=3)
    ap.add_argument('--only', default='')
    ap.add_argument('--own', action='store_true')
    args = ap.parse_args()
    dirs = sorted(d for d in glob.glob(os.path.join(VERIF, 'seeded', '*')) if os.path.exists(os.path.join(d, 'meta.json')))
    if args.only:
        keep = set(args.only.split(','))
        dirs = [d for d in dirs if os.path.basename(d) in keep]
    matrix = {}
    mp = os.path.join(VERIF, 'seeded', 'MATRIX.json')
    if os.path.exists(mp):
        matrix = json.load(open(mp))
    with ThreadPoolExecutor(args.jobs) as ex:
        for sid, res, err in ex.map(lambda d: one(d, args.own), dirs):
            if res is None:
                print(sid, 'ERROR', err)
                continue
            d = os.path.join(VERIF, 'seeded', sid)
            meta = json.load(open(os.path.join(d, 'meta.json')))
            det = {x['property']: x['obligations'] for x in res['detected_by']}
            if args.own:
                prev = {p: o for p, o in (meta.get('detected_obligations') or {}).items() if p != meta['breaks_property']}
                prev.update(det)
                det = prev
            meta['detected_by'] = sorted(det)
            meta['detected_obligations'] = det
            json.dump(meta, open(os.path.join(d, 'meta.json'), 'w'), indent=1)
            matrix[sid] = dict(breaks=meta['breaks_property'], detected_by=sorted(det))
            print(sid, 'detected_by', sorted(det))
            json.dump(matrix, open(mp, 'w'), indent=1, sort_keys=True)
    return 0


if __name__ == '__main__':
    sys.exit(main())

#!/venv/bin/python
"""Confirm a seeded change delivered by a mutation agent and file it under /verif/seeded/<id>/.

tools/seed_confirm.py <agent_out_dir> <seed_id> <property> [--needs "..."]

In a scratch worktree of /repo HEAD: demo passes on the unchanged tree, patch applies, the repository's
own tests still pass (222 passed), demo fails with the change; then the quick checks are run on the
changed tree (tools/seed_eval.py).  Writes seeded/<id>/{patch.diff, demo.py, notes.md, meta.json}.
"""
import argparse
import json
import os
import shutil
import subprocess
import sys
import tempfile

VERIF = os.path.dirname(os.path.dirname(os.path.abspath(__file__)))


def sh(cmd, **kw):
    return subprocess.run(cmd, shell=True, stdout=subprocess.PIPE, stderr=subprocess.STDOUT, universal_newlines=True, **kw)


def main():
    ap = argparse.ArgumentParser()
    ap.add_argument('src')
    ap.add_argument('seed_id')
    ap.add_argument('prop')
    ap.add_argument('--props', default='')
    ap.add_argument('--needs', default='')
    args = ap.parse_args()
    src = os.path.abspath(args.src)
    patch = os.path.join(src, 'patch.diff')
    demo = os.path.join(src, 'demo.py')
    wt = tempfile.mkdtemp(prefix='confwt-', dir='/tmp')
    os.rmdir(wt)
    sh('git -C /repo worktree add -q %s HEAD' % wt)
    meta = dict(id=args.seed_id, breaks_property=args.prop, needs_to_manifest=args.needs, ran=[])
    try:
        run = 'cd %s && PYTHONPATH=%s /venv/bin/python -W ignore %s' % (wt, wt, demo)
        r0 = sh(run)
        meta['ran'].append(dict(cmd='demo.py on unchanged tree', exit=r0.returncode))
        r = sh('git -C %s apply %s' % (wt, patch))
        if r.returncode:
            print('patch does not apply', r.stdout)
            return 2
        t = sh('cd %s && PYTHONPATH=%s /venv/bin/python -m pytest -q -p no:cacheprovider --timeout=900 '
               '--continue-on-collection-errors tests 2>&1 | tail -1' % (wt, wt))
        meta['ran'].append(dict(cmd='repository test suite with the change', result=t.stdout.strip()))
        r1 = sh(run)
        meta['ran'].append(dict(cmd='demo.py with the change', exit=r1.returncode, tail=r1.stdout.strip().splitlines()[-1:] ))
        ok = r0.returncode == 0 and r1.returncode != 0 and '222 passed' in t.stdout
        meta['confirmed'] = ok
    finally:
        sh('git -C /repo worktree remove --force %s' % wt)
        shutil.rmtree(wt, ignore_errors=True)
    ev = sh('%s/tools/seed_eval.py %s %s' % (VERIF, patch, ('--props ' + args.props) if args.props else ''))
    last = ev.stdout.strip().splitlines()[-1]
    try:
        res = json.loads(last)
    except Exception:
        res = dict(error=ev.stdout[-500:])
    meta['ran'].append(dict(cmd='quick checks on the changed tree (tools/seed_eval.py)',
                            detected_by=res.get('detected_by'), silent=res.get('silent')))
    meta['detected_by'] = [d['property'] for d in res.get('detected_by', [])]
    dst = os.path.join(VERIF, 'seeded', args.seed_id)
    os.makedirs(dst, exist_ok=True)
    shutil.copy(patch, os.path.join(dst, 'patch.diff'))
    shutil.copy(demo, os.path.join(dst, 'demo.py'))
    if os.path.exists(os.path.join(src, 'notes.md')):
        shutil.copy(os.path.join(src, 'notes.md'), os.path.join(dst, 'notes.md'))
    with open(os.path.join(dst, 'meta.json'), 'w') as f:
        json.dump(meta, f, indent=1)
    print(args.seed_id, 'confirmed' if meta.get('confirmed') else 'NOT CONFIRMED', 'detected_by', meta['detected_by'])
    return 0


if __name__ == '__main__':
    sys.exit(main())

"""Regenerates /verif/MANIFEST.json from the property modules that exist (python -m mc.manifest)."""
import importlib
import json
import os

VERIF = os.path.dirname(os.path.dirname(os.path.abspath(__file__)))

TECH = {
    'E1': "bounded exhaustive input-space enumeration on the real code vs exact rational reference model",
    'E2': "explicit-state BFS over public-operation histories on the real objects, differential oracle",
    'E3': "exhaustive enumeration of chunk-to-worker schedules of the process pool (virtual pool at the seam)",
}

READY = ["C01", "C02", "C03", "C04", "C05", "C06", "C07", "C08", "C09", "C10", "C11", "C12", "C13", "C14", "C15", "C16", "C17", "C18", "C19", "C20"]      # properties whose checks are finished and registered

NOT_BUILT = "check not built yet in this round (design in DESIGN.md section 4); not claimed"


def main():
    props = [json.loads(l) for l in open(os.path.join(VERIF, 'properties.jsonl'))]
    checks, na = [], []
    for p in props:
        pid = p['id']
        try:
            if pid not in READY:
                raise ImportError(pid)
            mod = importlib.import_module('mc.props.' + pid.lower())
        except ImportError:
            na.append(dict(property_id=pid, reason=NOT_BUILT))
            continue
        expl = getattr(mod, 'EXPLORERS', ['E1'])
        checks.append(dict(
            property_id=pid,
            quick_cmd="./check %s --tier quick" % pid,
            thorough_cmd="./check %s --tier thorough" % pid,
            evidence_file="/verif/evidence/%s.json" % pid,
            replay_cmd_template="./check %s --replay {path}" % pid,
            engine="mc",
            level_claimed=dict(
                category="model_checking",
                text=getattr(mod, 'LEVEL_TEXT', None) or (
                    "Every case of a finite, explicitly bounded space (see evidence.bounds and RULE) is executed on the "
                    "real library and judged step by step against an exact reference model; nothing is sampled. "
                    + mod.RULE),
                design_ref="DESIGN.md section 4, " + pid),
            level_note="; ".join(getattr(mod, 'ASSUMPTIONS', [])) or "exact rational reference model trusted",
            technique=" + ".join(TECH[e] for e in expl),
        ))
    man = dict(
        version=1,
        setup_cmd="/venv/bin/python -m mc.refmodel",
        hooks=dict(guard="NURBS_PYTHON_VERIF", enable="no hooks: all seams are reachable from outside the library",
                   baseline_off_cmd="cd /repo && /venv/bin/python -m pytest -ra -q -p no:cacheprovider --timeout=900 "
                                    "--continue-on-collection-errors",
                   source_commits=[], add_only=True),
        engines=[dict(name="mc", path="/verif/mc", serves_properties=[c['property_id'] for c in checks],
                      kind_free_text="hand-written bounded exhaustive explorers (E1 input space, E2 history BFS, "
                                     "E3 pool schedules) driving the real geomdl code against an exact Fraction model")],
        checks=checks,
        notes="See DESIGN.md. Known findings: known_findings.json. Replay artefacts: replays/.",
        not_applicable=na,
    )
    with open(os.path.join(VERIF, 'MANIFEST.json'), 'w') as f:
        json.dump(man, f, indent=1)
    print("claimed:", [c['property_id'] for c in checks])
    print("not claimed:", [n['property_id'] for n in na])


if __name__ == '__main__':
    main()

"""C07 - splitting and Bezier decomposition reproduce the original piecewise (explorer E1)."""
import itertools
from fractions import Fraction as F

from .. import alphabet as A
from .. import refmodel as R
from .. import shapes as S
from .. import util_knots as K

PROPERTY = "C07"
VIA_HISTORY_EVERY = 5      # every k-th shape case is also run on an object that reached its definition through edits
EXPLORERS = ['E1']
RULE = ("E1: the clamped curves and surfaces of C04 plus the full K'(p) surface products (rational and not, pairwise different sizes) and non-normalised affine "
        "knot ranges (normalize_kv=False) x split parameter in {every interior knot (multiplicities 1..p), every span midpoint, "
        "1/3 of the domain} x split_curve / split_surface_u / split_surface_v; both domain ends per direction for rejection; "
        "decompose_curve and decompose_surface with decompose_dir in {u, v, uv} on every shape; non-trivial = every split, "
        "and every decomposition of a shape with an interior knot")
ASSUMPTIONS = [
    "on one knot span of a piece both the piece and the re-parametrised original are polynomial (rational: quotients) of degree p "
    "per direction, so agreement at p+1 (2p+1) interior parameters per span and direction of the piece decides equality there",
    "pieces are compared through their own definition (knot vectors are re-normalised to [0,1] by the library; the affine map is "
    "piece domain -> sub-interval of the original, identity-like in the other direction)",
    "splitting is linear in the homogeneous net: an injective index-coded net (+ coded weights, thorough: seeded) exposes index/slicing errors",
    "tolerance 1e-9 relative to max(1,|P|) (re-normalised interior knots of a piece are rounded to binary64)",
]
TOL = 1e-9


def bounds(tier):
    return dict(quick=dict(curves='p<=3 over K(p,2,4)', surfaces="degrees {1,2,3}^2 over K'(p) level 1 + 3 knot structures per direction",
                           nonnormalised='2 affine ranges'),
                thorough=dict(curves='p<=3 over K(p,3,8), p=4 over K(4,3,4), p=5 over K(5,2,4)',
                              surfaces="degrees {1,2,3}^2 over K'(p) level 2 and over K(pu,2,4) x K(pv,1,4)", nonnormalised='4 affine ranges'))[tier]


def _more_surfaces(tier, have):
    """splitting is cheap: the full K'(p) products (level 1, thorough level 2) on top of the shared surface alphabet"""
    out = []
    seen = set(str(d) for d in have)
    level = 1 if tier == 'quick' else 2
    for pu, pv in itertools.product([1, 2, 3], repeat=2):
        for ku in A.rep_kvs(pu, level):
            for kv in A.rep_kvs(pv, level):
                if len(ku) - pu == len(kv) - pv:
                    continue
                for d in K.variants([ku, kv], [pu, pv], tier, 2)[:2]:
                    if str(d) not in seen:
                        seen.add(str(d))
                        out.append(d)
    return out


def _thorough_extras(have):
    """thorough only: curves over K(3,3,8), K(4,3,4); surfaces over K(pu,2,4) x K(pv,1,4)"""
    out = []
    seen = set(str(d) for d in have)
    todo = []
    for p, B, G in [(3, 3, 8), (4, 3, 4)]:
        for kv in A.clamped_kvs(p, B, G):
            todo.append(([kv], [p]))
    for pu, pv in itertools.product([1, 2, 3], repeat=2):
        for ku in A.clamped_kvs(pu, 2, 4):
            for kv in A.clamped_kvs(pv, 1, 4):
                if len(ku) - pu != len(kv) - pv:
                    todo.append(([ku, kv], [pu, pv]))
    for kvs, degs in todo:
        for d in K.variants(kvs, degs, 'quick', len(kvs)):
            if str(d) not in seen:
                seen.add(str(d))
                out.append(d)
    return out


def gen_cases(tier, seed):
    cases = []
    base = K.curve_shapes(tier) + K.nonnormalised_shapes(tier) + K.surface_shapes(tier)
    base = base + _more_surfaces(tier, base)
    if tier == 'thorough':
        base = base + _thorough_extras(base)
    for d in base:
        cases.append(dict(kind='split', shape=d))
        cases.append(dict(kind='decompose', shape=d))
    for d in [x for x in K.curve_shapes(tier) if len(x['kvs'][0]) > 2 * (x['degrees'][0] + 1) and x['degrees'][0] >= 2][:6]:
        cases.append(dict(kind='split', shape=d, near_knot=True))
    for d in [x for x in K.surface_shapes(tier) if all(len(kv) > 2 * (p + 1) for kv, p in zip(x['kvs'], x['degrees']))][:3]:
        cases.append(dict(kind='split', shape=d, near_knot=True))
    # shapes that keep their own knot range, reached through edits from another range (the old domain end is an interior
    # knot of the new domain): the domain used by the end-of-domain rejection must be the current one
    for d in K.nonnormalised_shapes(tier):
        cases.append(dict(kind='split', shape=d, via='history'))
        cases.append(dict(kind='decompose', shape=d, via='history'))
    return cases


def case_weight(c):
    d = c['shape']
    return K.shape_weight(d) * (sum(len(k) for k in d['kvs']))


# ----------------------------------------------------------------------------------------

def _domains(d):
    return [R.domain(p, U) for p, U in zip(d['degrees'], d['kvs'])]


def _wellformed(d):
    return (len(d['P']) == K.prod(d['sizes']) and
            all(len(U) == n + p + 1 and n >= p + 1 and all(x <= y for x, y in zip(U, U[1:])) and U[p] < U[n]
                for U, n, p in zip(d['kvs'], d['sizes'], d['degrees'])))


def _piece_geometry(ctx, obligation, piece, d_orig, cell, scale, rc, feats):
    """piece (library object) equals the original on `cell` (per-direction sub-interval of the original's domain)"""
    try:
        d_piece = R.def_from_obj(piece)
    except Exception as e:
        return ctx.check(obligation, False, rc, feats, 'a spline object', repr(e), 'piece definition cannot be read')
    if d_piece['degrees'] != d_orig['degrees'] or d_piece['rational'] != d_orig['rational'] or not _wellformed(d_piece) \
            or len(d_piece['P'][0]) != len(d_orig['P'][0]):
        return ctx.check(obligation, False, rc, feats, dict(degrees=d_orig['degrees'], rational=d_orig['rational']),
                         dict(degrees=d_piece['degrees'], rational=d_piece['rational'], sizes=d_piece['sizes']),
                         'piece is not a well formed shape of the same degrees / kind')
    ps = K.param_sets(d_piece)
    mapped = K.affine_sets(ps, _domains(d_piece), cell)
    return K.same_shape(ctx, obligation, d_piece, ps, d_orig, mapped, scale, rc, feats, TOL)


def _split_fn(name):
    from geomdl import operations
    return getattr(operations, name)


def _base_feats(desc):
    return dict(pdim=desc['pdim'], rational=desc['rational'], degrees=list(desc['degrees']),
                normalize_kv=desc.get('normalize_kv', True), net=desc['net'].split(':')[0])


def _split_case(case, ctx):
    from geomdl.exceptions import GeomdlException
    desc = case['shape']
    pd = desc['pdim']
    obj = S.build(desc, ctx.seed)
    d_orig = R.def_from_obj(obj)
    scale = K.geo_scale(d_orig)
    kvs0 = K.obj_kvs(obj)
    doms = _domains(d_orig)
    ctx.state(dict(d=desc, s=ctx.seed if 'seeded' in (desc['net'], desc.get('weights')) else 0), nontrivial=True)
    fns = [('split_curve', 0)] if pd == 1 else [('split_surface_u', 0), ('split_surface_v', 1)]
    for name, a in fns:
        if case.get('fn') and case['fn'] != name:
            continue
        p, kv = desc['degrees'][a], kvs0[a]
        n = len(kv) - p - 1
        menu = K.insertion_params(p, kv)
        if case.get('near_knot'):
            # split parameters closer to an interior knot than the library's multiplicity tolerance (1e-7)
            interior = sorted(set(k for k in kv if kv[p] < k < kv[n]))
            menu = [(t + d, 0) for t in interior for d in (-1e-9, 1e-9, -5e-8)]
        if 'params' in case:
            menu = [(u, K.fmult(kv, u)) for u in case['params']]
        fn = _split_fn(name)
        for u, s in menu:
            if u in (kv[p], kv[n]):
                continue
            obj = S.build(desc, ctx.seed)
            before = S.snapshot(obj)
            near = [t for t in kv if 0.0 < abs(u - t) < 1e-7]
            feats = dict(_base_feats(desc), fn=name, direction=K.DIRN[a], degree=p, mult=s, at_existing_knot=s > 0,
                         full_multiplicity=s == p, near_knot=('below' if near and u < near[0] else 'above') if near else None)
            rc = dict(kind='split', shape=desc, fn=name, params=[u])
            try:
                pieces = fn(obj, u)
            except Exception as e:
                ctx.check('C07.split.accepted', False, rc, feats, 'two pieces', repr(e)[:300], 'interior split raised')
                continue
            ctx.check('C07.split.accepted', True, rc, feats)
            ctx.check('C07.split.input_unchanged', S.snapshot(obj) == before, rc, feats, 'snapshot unchanged', None)
            if not ctx.check('C07.split.two_pieces', isinstance(pieces, (list, tuple)) and len(pieces) == 2, rc, feats, 2,
                             len(pieces) if hasattr(pieces, '__len__') else repr(pieces)):
                continue
            ctx.check('C07.split.new_objects', all(pc is not obj for pc in pieces) and pieces[0] is not pieces[1], rc, feats)
            for i, pc in enumerate(pieces):
                cell = list(doms)
                cell[a] = (doms[a][0], F(u)) if i == 0 else (F(u), doms[a][1])
                _piece_geometry(ctx, 'C07.split.geometry', pc, d_orig, cell, scale, rc, dict(feats, piece=i))
            ctx.outcome((name, u, tuple(tuple(K.obj_sizes(pc)) for pc in pieces)))
        # rejection at both ends of the domain
        if not case.get('near_knot') and ('params' not in case or any(u in (kv[p], kv[n]) for u in case['params'])):
            for u in (kv[p], kv[n]):
                if 'params' in case and u not in case['params']:
                    continue
                obj = S.build(desc, ctx.seed)
                before = S.snapshot(obj)
                feats = dict(_base_feats(desc), fn=name, direction=K.DIRN[a], degree=p, end='lo' if u == kv[p] else 'hi')
                rc = dict(kind='split', shape=desc, fn=name, params=[u])
                ctx.raises('C07.split.end_rejected', lambda: fn(obj, u), (GeomdlException,), rc, feats)
                ctx.check('C07.split.end_rejected.unchanged', S.snapshot(obj) == before, rc, feats, 'snapshot unchanged', None)


def _intervals(p, U):
    return [(U[i], U[i + 1]) for i in R.nonempty_spans(p, U)]


def _decompose_case(case, ctx):
    from geomdl import operations
    desc = case['shape']
    pd = desc['pdim']
    obj0 = S.build(desc, ctx.seed)
    d_orig = R.def_from_obj(obj0)
    scale = K.geo_scale(d_orig)
    ivs = [_intervals(p, U) for p, U in zip(d_orig['degrees'], d_orig['kvs'])]
    doms = _domains(d_orig)
    ctx.state(dict(d=desc, dec=1), nontrivial=any(len(iv) > 1 for iv in ivs))
    modes = ['curve'] if pd == 1 else (case.get('dirs') or ['u', 'v', 'uv'])
    for mode in modes:
        obj = S.build(desc, ctx.seed)
        before = S.snapshot(obj)
        feats = dict(_base_feats(desc), decompose_dir=mode, intervals=[len(iv) for iv in ivs],
                     max_mult=[max([R.multiplicity(U, k) for k in set(U[p + 1:len(U) - p - 1])] or [0])
                               for p, U in zip(d_orig['degrees'], d_orig['kvs'])])
        rc = dict(kind='decompose', shape=desc, dirs=[mode])
        try:
            pieces = operations.decompose_curve(obj) if pd == 1 else operations.decompose_surface(obj, decompose_dir=mode)
        except Exception as e:
            ctx.check('C07.decompose.accepted', False, rc, feats, 'list of Bezier pieces', repr(e)[:300], 'decomposition raised')
            continue
        ctx.check('C07.decompose.accepted', True, rc, feats)
        if pd == 1:
            cells = [[iv] for iv in ivs[0]]
            bez = [0]
        else:
            if mode == 'u':
                cells, bez = [[iu, doms[1]] for iu in ivs[0]], [0]
            elif mode == 'v':
                cells, bez = [[doms[0], iv] for iv in ivs[1]], [1]
            else:
                cells, bez = [[iu, iv] for iu in ivs[0] for iv in ivs[1]], [0, 1]      # u-major order
        ctx.check('C07.decompose.input_unchanged', S.snapshot(obj) == before, rc, feats, 'snapshot unchanged', None)
        if not ctx.check('C07.decompose.count', len(pieces) == len(cells), rc, feats, len(cells), len(pieces),
                         'one piece per non-empty knot interval (per pair of intervals for uv)'):
            continue
        for i, (pc, cell) in enumerate(zip(pieces, cells)):
            fi = dict(feats, piece=i)
            sizes = K.obj_sizes(pc)
            exp_sizes = [desc['degrees'][a] + 1 if a in bez else desc['sizes'][a] for a in range(pd)]
            kvs = K.obj_kvs(pc)
            bez_ok = all(len(set(kvs[a])) == 2 for a in bez)
            ctx.check('C07.decompose.bezier_size', sizes == exp_sizes and bez_ok, rc, fi, exp_sizes,
                      dict(sizes=sizes, kvs=kvs), 'p+1 control points and no interior knot in every decomposed direction')
            _piece_geometry(ctx, 'C07.decompose.geometry_and_order', pc, d_orig, cell, scale, rc, fi)
        ctx.outcome((mode, len(pieces)))


def run_case(case, ctx):
    if case['kind'] == 'split':
        _split_case(case, ctx)
    elif case['kind'] == 'decompose':
        _decompose_case(case, ctx)
    else:
        raise ValueError("unknown case kind %r" % case['kind'])

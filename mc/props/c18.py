"""C18 - shapes stay inside the hull of their control points (explorer E1)."""
import itertools
import math
from fractions import Fraction as F

from .. import alphabet as A
from .. import refmodel as R
from .. import shapes as S

PROPERTY = "C18"
VIA_HISTORY_EVERY = 7      # every k-th shape case is also run on an object that reached its definition through edits
EXPLORERS = ['E1']
RULE = ("E1: curves, surfaces and volumes x rational (positive weights: coded, spike, seeded) / non-rational x degrees x knot "
        "vectors (K(p,B,G) curves, K'(p) products for surfaces/volumes, unclamped) x pairwise different sizes x nets (coded, "
        "shifted all-positive / all-negative, unit, seeded; 2-D, 3-D, 5-D) x every parameter of the alphabet and every "
        "sampled grid point x direction set D (all {-1,0,1} vectors; 2-D: normals of every pair of active points, which "
        "contains every hull edge normal; 3-D: normals of every triple of active points up to the stated size); "
        "non-trivial = interior knot or non-unit weight")
ASSUMPTIONS = [
    "a point is outside a convex hull iff some direction separates it: in 2-D the pair normals contain every hull edge normal, so the "
    "test is complete; in 3-D it is complete when all triple normals are used (curves; surfaces/volumes with <= 9 (quick: 4) active "
    "points), otherwise it is the necessary condition over the {-1,0,1} directions",
    "the evaluated point is taken from the real library (binary64) and converted exactly; slack eps = 1e-9 * max(1,|P|) per inequality",
    "active control points = the (p+1)(q+1)(r+1) points of the knot span the definition assigns to the parameter (right span at "
    "knots, last non-empty span at the end); at grid parameters that fall on a knot the union of both neighbouring spans is used",
    "operations.find_ctrlpts returns homogeneous points for rational surfaces and unweighted ones for rational curves; both forms are "
    "accepted and compared after division by the weight (the property does not fix the form)",
    "C18.bbox.of_net reads 'the reported bounding box of the control net' as the exact componentwise min/max of the unweighted net",
    "length bounds are demanded for non-rational curves only; chord = distance of the exact end points of the domain, with 1e-9 relative slack",
]
EPS = 1e-9
SAMPLES = dict(quick=[2, 3, 5, 10], thorough=[2, 3, 5, 10, 50])
PARTS = ('support', 'grid', 'ends', 'length')


def bounds(tier):
    return dict(
        quick=dict(curves='p<=3 over K(p,2,4), unclamped p<=3', surfaces="degrees {1,2,3}^2 over K'(p) level 1",
                   volumes='degrees {1,2}^3 over 3 reps', triple_normals_up_to_active_points=4, sample_sizes=SAMPLES['quick']),
        thorough=dict(curves='p<=5 over K(p,3,8) (p<=2), K(3,2,8), K(4,2,4), K(5,2,4), unclamped p<=5',
                      surfaces="degrees {1,2,3}^2 over full K'(p)", volumes='degrees {1,2,3}^3 (sum<=7) over 3-4 reps',
                      triple_normals_up_to_active_points=9, sample_sizes=SAMPLES['thorough']))[tier]


# ----------------------------------------------------------------------------------------
# enumeration
# ----------------------------------------------------------------------------------------

def _shifted(sizes, dim, shift):
    return [[c + shift for c in pt] for pt in A.make_net(sizes, dim, 'coded')]


def _variants(kvs, degrees, tier, units):
    sizes = [len(kv) - p - 1 for kv, p in zip(kvs, degrees)]
    pd = len(kvs)
    low = 3 if pd == 3 else 2
    out = [A.shape_desc(kvs, degrees, False, 3, 'coded'),
           A.shape_desc(kvs, degrees, True, 3, 'coded', 'coded'),
           A.shape_desc(kvs, degrees, True, low, 'seeded', 'spike'),
           A.shape_desc(kvs, degrees, False, low, 'seeded'),
           A.shape_desc(kvs, degrees, True, 3, 'shifted', 'spike', points=_shifted(sizes, 3, 3.0)),
           A.shape_desc(kvs, degrees, False, 3, 'shifted', points=_shifted(sizes, 3, -500.0))]
    if tier == 'thorough':
        out.append(A.shape_desc(kvs, degrees, True, 3, 'seeded', 'seeded'))
        out.append(A.shape_desc(kvs, degrees, True, low, 'coded', 'seeded'))
    if pd == 1:
        out.append(A.shape_desc(kvs, degrees, False, 5, 'coded'))
    for m in (A.unit_indices(sizes, units == 'all') if units else []):
        out.append(A.shape_desc(kvs, degrees, True, low, 'unit:%d' % m, 'coded'))
    return out


def gen_cases(tier, seed):
    q = tier == 'quick'
    cases = []
    plan = [(1, 2, 4), (2, 2, 4), (3, 2, 4)] if q else [(1, 3, 8), (2, 3, 8), (3, 2, 8), (4, 2, 4), (5, 2, 4)]
    for p, B, G in plan:
        for kv in A.clamped_kvs(p, B, G):
            for d in _variants([kv], [p], tier, 'all' if p <= 3 else 'some'):
                cases.append(dict(shape=d))
    for p in range(1, 4 if q else 6):
        for n in (p + 1, p + 3):
            for kv in A.unclamped_kvs(p, n):
                for rat in (False, True):
                    cases.append(dict(shape=A.shape_desc([kv], [p], rat, 3, 'coded', 'coded'), unclamped=True))
                cases.append(dict(shape=A.shape_desc([kv], [p], False, 2, 'seeded'), unclamped=True))
    # the tall thin slice: degree up to 6, up to 12 (thorough 20) control points per direction over few knot vectors
    from .. import util_knots as K
    for d in K.tall_curve_shapes(tier) + K.tall_surface_shapes(tier):
        cases.append(dict(shape=d, tall=True))
    for d in K.variety_shapes(tier):
        cases.append(dict(shape=d, variety=True))
    for d in K.tiny_span_shapes(tier):
        cases.append(dict(shape=d, variety=True))
    degs = [1, 2, 3]
    for pu, pv in itertools.product(degs, degs):
        for ku in A.rep_kvs(pu, 1 if q else 2):
            for kv in A.rep_kvs(pv, 1 if q else 2):
                su, sv = len(ku) - pu - 1, len(kv) - pv - 1
                if su == sv and pu == pv and q:
                    continue
                vs = _variants([ku, kv], [pu, pv], tier, 'some')
                for d in (vs[:6] + vs[-1:] if q else vs):
                    cases.append(dict(shape=d))
    for pu, pv in ((1, 2), (2, 1), (2, 3)):
        ku = A.unclamped_kvs(pu, pu + 2)[0]
        kv = A.rep_kvs(pv, 1)[1]
        for rat in (False, True):
            cases.append(dict(shape=A.shape_desc([ku, kv], [pu, pv], rat, 3, 'coded', 'coded'), unclamped=True))
    vdeg = [1, 2] if q else [1, 2, 3]
    for pu, pv, pw in itertools.product(vdeg, vdeg, vdeg):
        if pu + pv + pw > 7:
            continue
        reps = (lambda p: A.rep_kvs(p, 1)[:3]) if q else (lambda p: A.rep_kvs(p, 1)[:4])
        for ku, kv, kw in itertools.product(reps(pu), reps(pv), reps(pw)):
            sz = (len(ku) - pu - 1, len(kv) - pv - 1, len(kw) - pw - 1)
            if len(set(sz)) < 3 and (q or len(set(sz)) < 2):
                continue
            vs = _variants([ku, kv, kw], [pu, pv, pw], tier, None)
            for d in (vs[:3] + vs[4:6] if q else vs):
                cases.append(dict(shape=d))
    # two objects: a rational shape and the copy a transform returns, views of the source read before those of the copy
    extra = [dict(c, as_copy=True) for c in cases if c['shape']['rational'] and c['shape']['dim'] == 3][::(7 if q else 3)]
    # ... and the same object after Curve.reverse() / Surface.transpose() (methods; the views were read before)
    extra += [dict(c, after_method='reverse' if c['shape']['pdim'] == 1 else 'transpose') for c in cases
              if c['shape']['pdim'] <= 2 and c['shape'].get('normalize_kv', True) and not c.get('unclamped')][::(9 if q else 4)]
    # ... and after a knot-vector assignment on objects whose sampled points were read (normalised or kept ranges)
    extra += [dict(c, after_method='knotvector_edit') for c in cases
              if any(len(kv) > 2 * (p + 1) for kv, p in zip(c['shape']['kvs'], c['shape']['degrees']))
              and not c.get('unclamped') and c['shape'].get('variety') != 'tiny_span'][::(11 if q else 5)]
    extra += [dict(shape=d, after_method='knotvector_edit') for d in K.nonnormalised_shapes(tier)[::2]]
    return cases + extra


def case_weight(c):
    d = c['shape']
    w = 1
    for kv, p in zip(d['kvs'], d['degrees']):
        w *= len(kv) * (p + 1) ** 2
    return w * (2 if d['rational'] else 1)


# ----------------------------------------------------------------------------------------
# exact support-function test on integers
# ----------------------------------------------------------------------------------------

def _to_int(vectors, eps):
    """scale exact rational vectors (and eps) to integers with one common denominator"""
    den = 1
    for v in vectors:
        for x in v:
            den = math.lcm(den, x.denominator)
    e = F(eps)
    return [[int(x * den) for x in v] for v in vectors], int(math.ceil(e * den))


def _directions(dim, act, triples):
    base = []
    for d in itertools.product((-1, 0, 1), repeat=dim):
        nz = [x for x in d if x != 0]
        if nz and nz[0] == 1:
            base.append(d)
    extra = set()
    if dim == 2:
        for a, b in itertools.combinations(act, 2):
            n = (-(b[1] - a[1]), b[0] - a[0])
            if n != (0, 0):
                extra.add(n)
    elif dim == 3 and triples:
        for a, b, c in itertools.combinations(act, 3):
            e1 = (b[0] - a[0], b[1] - a[1], b[2] - a[2])
            e2 = (c[0] - a[0], c[1] - a[1], c[2] - a[2])
            n = (e1[1] * e2[2] - e1[2] * e2[1], e1[2] * e2[0] - e1[0] * e2[2], e1[0] * e2[1] - e1[1] * e2[0])
            if n != (0, 0, 0):
                extra.add(n)
    return base, list(extra)


def support_violation(point, active, eps, triples):
    """None if `point` passes min d.P - eps|d| <= d.S <= max d.P + eps|d| for every direction, else a witness dict.
    All arguments exact (Fractions)."""
    vecs, e = _to_int([point] + list(active), eps)
    s, act = vecs[0], vecs[1:]
    dim = len(s)
    base, extra = _directions(dim, act, triples)
    ndir = 0
    for dset in (base, extra):
        for d in dset:
            ndir += 1
            ds = sum(x * y for x, y in zip(d, s))
            vals = [sum(x * y for x, y in zip(d, a)) for a in act]
            # |d|_1 * eps bounds the effect of an eps error per coordinate
            slack = e * sum(abs(x) for x in d)
            if ds < min(vals) - slack or ds > max(vals) + slack:
                return dict(direction=[float(x) for x in d], d_dot_S=float(ds), min_d_dot_P=float(min(vals)),
                            max_d_dot_P=float(max(vals)), scaled=True), ndir
    return None, ndir


# ----------------------------------------------------------------------------------------

def _unweighted(model):
    if not model['rational']:
        return [tuple(p) for p in model['P']]
    return [tuple(c / p[-1] for c in p[:-1]) for p in model['P']]


def _active(model, U_pts, spans):
    degs, sizes = model['degrees'], model['sizes']
    out = []
    for js in itertools.product(*[range(p + 1) for p in degs]):
        idx = [s - p + j for s, p, j in zip(spans, degs, js)]
        out.append(U_pts[R.flat_index(sizes, idx)])
    return out


def _spans_for(model, prm, both_sides=False):
    """list of span tuples: the definition's span; with both_sides also the span to the left when a coordinate is a knot"""
    per = []
    for p, U, x in zip(model['degrees'], model['kvs'], prm):
        s = R.find_span(p, U, x)
        opts = [s]
        if both_sides and x == U[s] and s > p:
            left = s - 1
            while left > p and U[left] == U[left + 1]:
                left -= 1
            opts.append(left)
        per.append(opts)
    return list(itertools.product(*per))


def _flatten_found(found, pd):
    if pd == 1:
        return [list(p) for p in found]
    return [list(p) for row in found for p in row]


def run_case(case, ctx):
    from geomdl import operations
    desc = case['shape']
    seed = ctx.seed
    pd, dim = desc['pdim'], desc['dim']
    obj = S.build(desc, seed)
    if case.get('as_copy'):
        # the judged object is the copy returned by a non in-place transform; the source's views are read first
        src = obj
        obj = operations.translate(src, [2.0, -1.0, 0.5][:dim])
        _ = (src.ctrlpts, src.bbox, src.weights, src.evalpts)
    if case.get('after_method'):
        # the judged object went through a structural method (Curve.reverse / Surface.transpose) after its views were read
        first = (5,) if pd == 1 else ((5, 4) if pd == 2 else (2, 3, 4))       # (each is one of the grids judged below)
        if pd == 1:
            obj.sample_size = first[0]
        else:
            for nm_, n_ in zip('uvw'[:pd], first):
                setattr(obj, 'sample_size_' + nm_, n_)
        _ = (obj.ctrlpts, obj.bbox, obj.evalpts)
        if desc['rational']:
            _ = obj.weights
        if case['after_method'] == 'knotvector_edit':
            # another valid knot vector of the same length is assigned through the setter(s): the sampled points have to follow
            def moved(kv):
                # same range, same multiplicities, interior knots moved (not an affine image: the shape really changes)
                lo_, hi_ = kv[0], kv[-1]
                return [lo_ + (hi_ - lo_) * ((k - lo_) / (hi_ - lo_)) ** 2 for k in kv]
            if pd == 1:
                obj.knotvector = moved(list(obj.knotvector))
            else:
                for a_, nm_ in enumerate('uvw'[:pd]):
                    setattr(obj, 'knotvector_' + nm_, moved(list(obj.knotvector[a_])))
        else:
            getattr(obj, case['after_method'])()
    model = R.def_from_obj(obj)
    degs = model['degrees']
    U_pts = _unweighted(model)
    # the control points the object REPORTS are the ones the hull statements are about
    rep = [list(p) for p in obj.ctrlpts]
    ctx.close('C18.reported_net.is_the_net', rep, U_pts, 1e-12, max(1.0, max(abs(float(c)) for p in U_pts for c in p)),
              dict(case, parts=['grid'], sample_sizes=[]), dict(pdim=pd, rational=desc['rational'], after_method=case.get('after_method')))
    maxP = max(1.0, max(abs(float(c)) for p in U_pts for c in p))
    eps = EPS * maxP
    clamped = all(R.multiplicity(U, U[0]) >= p + 1 and R.multiplicity(U, U[-1]) >= p + 1
                  for U, p in zip(model['kvs'], degs))
    feats = dict(pdim=pd, rational=desc['rational'], degrees=list(degs), degree=max(degs), dim=dim,
                 net=desc['net'].split(':')[0], weights=desc.get('weights', 'ones'), unclamped=bool(case.get('unclamped')),
                 clamped=clamped, as_copy=bool(case.get('as_copy')))
    ctx.state(dict(d=desc, s=seed if 'seeded' in (desc['net'], desc.get('weights')) else 0),
              nontrivial=A.is_nontrivial(desc))
    parts = case.get('parts') or PARTS
    nact = 1
    for p in degs:
        nact *= p + 1
    triples = nact <= (4 if ctx.tier == 'quick' else 9)
    kvs_f = [list(obj.knotvector)] if pd == 1 else [list(k) for k in obj.knotvector]
    knotsets = [set(U) for U in model['kvs']]

    # ---- bounding box of the control net
    if 'grid' in parts or 'support' in parts:
        bb = obj.bbox
        exp_min = [min(p[t] for p in U_pts) for t in range(dim)]
        exp_max = [max(p[t] for p in U_pts) for t in range(dim)]
        ok = isinstance(bb, (list, tuple)) and len(bb) == 2 and len(bb[0]) == dim and len(bb[1]) == dim
        if ctx.check('C18.bbox.shape', ok, dict(case, parts=['grid'], sample_sizes=[]), feats, '(min, max)', repr(bb)[:200]):
            ctx.close('C18.bbox.of_net', [list(bb[0]), list(bb[1])], [exp_min, exp_max], 1e-12, 1.0,
                      dict(case, parts=['grid'], sample_sizes=[]), feats)

    # ---- support inequalities at every parameter of the alphabet
    if 'support' in parts:
        psets = case.get('params')
        if not psets:
            psets = []
            for kv, p in zip(kvs_f, degs):
                if pd == 1:
                    psets.append(A.params_for(p, kv, per_span=(2 * p + 1) if desc['rational'] else (p + 1)))
                elif pd == 2:
                    psets.append(A.params_for(p, kv, per_span=(p + 1) if ctx.tier == 'thorough' else 2,
                                              extras=ctx.tier == 'thorough'))
                else:
                    psets.append(A.few_params(p, kv) if ctx.tier == 'thorough' else A.params_for(p, kv, 1, False))
        for prm in itertools.product(*psets):
            pf = tuple(F(x) for x in prm)
            interior = all(x not in ks for x, ks in zip(pf, knotsets))
            f = dict(feats, span_interior=interior, source='model')
            rc = dict(case, params=[[x] for x in prm], parts=['support'])
            try:
                pt = obj.evaluate_single(prm[0] if pd == 1 else list(prm))
            except Exception as e:  # noqa - reported, not swallowed
                ctx.check('C18.evaluate.no_exception', False, rc, f, 'a point', repr(e))
                continue
            if not ctx.check('C18.point.shape', isinstance(pt, (list, tuple)) and len(pt) == dim, rc, f, dim, repr(pt)[:100]):
                continue
            spt = tuple(F(x) for x in pt)
            spans = tuple(R.find_span(p, U, x) for p, U, x in zip(degs, model['kvs'], pf))
            act = _active(model, U_pts, spans)
            wit, nd = support_violation(spt, act, eps, triples)
            ctx.extra['inequalities'] += 2 * nd * len(act)
            ctx.check('C18.hull.support', wit is None, rc, f, 'min d.P - eps <= d.S(u) <= max d.P + eps for every d', wit)
            ctx.outcome((spans, tuple(round(float(x), 6) for x in pt)))
            if pd <= 2:
                f2 = dict(f, source='find_ctrlpts')
                try:
                    found = operations.find_ctrlpts(obj, *prm)
                    flat = _flatten_found(found, pd)
                except Exception as e:  # noqa - reported
                    ctx.check('C18.find_ctrlpts.no_exception', False, rc, f2, 'the active control points', repr(e))
                    continue
                ok = len(flat) == nact and all(len(p) in (dim, dim + 1) for p in flat)
                if not ctx.check('C18.find_ctrlpts.shape', ok, rc, f2, [nact, dim], [len(flat), [len(p) for p in flat][:4]]):
                    continue
                homog = desc['rational'] and len(flat[0]) == dim + 1
                f2['form'] = 'homogeneous' if homog else 'unweighted'
                if homog:
                    fact = [tuple(F(c) / F(p[-1]) for c in p[:-1]) for p in flat]
                else:
                    fact = [tuple(F(c) for c in p) for p in flat]
                if interior:
                    ctx.close('C18.find_ctrlpts.coincide', [[float(c) for c in p] for p in fact], act, 1e-12, 1.0, rc, f2,
                              'find_ctrlpts must return the control points of the span containing the parameter')
                wit, nd = support_violation(spt, fact, eps, triples)
                ctx.check('C18.hull.support', wit is None, rc, f2, 'min d.P - eps <= d.S(u) <= max d.P + eps for every d', wit)

    # ---- clamped shapes start and end at the corner control points
    if 'ends' in parts and clamped:
        doms = [R.domain(p, U) for p, U in zip(degs, model['kvs'])]
        for corner in itertools.product((0, 1), repeat=pd):
            prm = [float(doms[a][c]) for a, c in enumerate(corner)]
            idx = [0 if c == 0 else model['sizes'][a] - 1 for a, c in enumerate(corner)]
            want = U_pts[R.flat_index(model['sizes'], idx)]
            try:
                got = obj.evaluate_single(prm[0] if pd == 1 else prm)
            except Exception as e:  # noqa - reported, not swallowed
                ctx.check('C18.evaluate.no_exception', False, dict(case, parts=['ends']), dict(feats, corner=list(corner)),
                          'a point', repr(e))
                continue
            ctx.close('C18.clamped.corner', list(got), want, 1e-12, maxP, dict(case, parts=['ends']),
                      dict(feats, corner=list(corner)))

    # ---- sampled grids: inside the bounding box, inside the local hull, first/last points
    if 'grid' in parts:
        _grid(case, ctx, obj, model, U_pts, feats, eps, maxP, triples, clamped)

    # ---- approximate length between chord and control polygon
    if 'length' in parts and pd == 1 and not desc['rational']:
        lo, hi = R.domain(degs[0], model['kvs'][0])
        a, b = R.eval_point(model, (lo,)), R.eval_point(model, (hi,))
        chord = math.sqrt(float(sum((x - y) ** 2 for x, y in zip(a, b))))
        poly = sum(math.sqrt(float(sum((x - y) ** 2 for x, y in zip(p1, p2)))) for p1, p2 in zip(U_pts, U_pts[1:]))
        for n in case.get('sample_sizes') or SAMPLES[ctx.tier]:
            n = n[0] if isinstance(n, (list, tuple)) else n
            obj.sample_size = n
            f = dict(feats, sample=n)
            rc = dict(case, parts=['length'], sample_sizes=[n])
            try:
                L = operations.length_curve(obj)
            except Exception as e:  # noqa - reported
                ctx.check('C18.length.no_exception', False, rc, f, 'a length', repr(e))
                continue
            slack = EPS * max(1.0, poly)
            ctx.check('C18.length.ge_chord', isinstance(L, float) and L >= chord - slack, rc, f, '>= %r' % chord, L)
            ctx.check('C18.length.le_polygon', isinstance(L, float) and L <= poly + slack, rc, f, '<= %r' % poly, L)
            if n == 2:
                # two samples: the polyline is the chord itself
                ctx.check('C18.length.two_samples_is_chord', abs(L - chord) <= slack, rc, f, chord, L)


def _grid(case, ctx, obj, model, U_pts, feats, eps, maxP, triples, clamped):
    pd = len(model['degrees'])
    dim = len(U_pts[0])
    tier = ctx.tier
    if pd == 1:
        combos = [(n,) for n in SAMPLES[tier]]
    elif pd == 2:
        combos = [(2, 3), (3, 2), (5, 4)] if tier == 'quick' else [(2, 3), (3, 2), (5, 4), (4, 7), (10, 5), (50, 3)]
    else:
        combos = [(2, 3, 4), (3, 2, 2)] if tier == 'quick' else [(2, 3, 4), (3, 2, 2), (4, 3, 2), (3, 5, 2)]
    if case.get('sample_sizes') is not None:
        combos = [tuple(c) if isinstance(c, (list, tuple)) else (c,) for c in case['sample_sizes']]
    doms = [R.domain(p, U) for p, U in zip(model['degrees'], model['kvs'])]
    cur0 = (obj.sample_size,) if pd == 1 else tuple(getattr(obj, 'sample_size_' + nm) for nm in 'uvw'[:pd])
    combos = sorted(combos, key=lambda c: tuple(c) != tuple(cur0))      # the grid the object already has comes first (stable)
    for ns in combos:
        rc = dict(case, parts=['grid'], sample_sizes=[list(ns)])
        f = dict(feats, sample=list(ns))
        # (the sampling density is only assigned when it differs: an assignment drops the sampled points, and the first grid of
        # an object that was edited after its points had been read must be the one the object hands out by itself)
        cur = (obj.sample_size,) if pd == 1 else tuple(getattr(obj, 'sample_size_' + nm) for nm in 'uvw'[:pd])
        if tuple(cur) != tuple(ns):
            if pd == 1:
                obj.sample_size = ns[0]
            elif pd == 2:
                obj.sample_size_u, obj.sample_size_v = ns
            else:
                obj.sample_size_u, obj.sample_size_v, obj.sample_size_w = ns
        try:
            ep = obj.evalpts
        except Exception as e:  # noqa - reported, not swallowed
            ctx.check('C18.evaluate.no_exception', False, rc, f, 'evaluated points', repr(e))
            continue
        total = 1
        for n in ns:
            total *= n
        if len(ep) != total:
            ctx.extra['grid_size_mismatch_skipped'] += 1     # C01.grid.size is the obligation for this
            continue
        # inside the reported bounding box (as reported after this evaluation)
        bb2 = obj.bbox
        worst = None
        for i, pt in enumerate(ep):
            for t in range(dim):
                if pt[t] < bb2[0][t] - eps or pt[t] > bb2[1][t] + eps:
                    worst = dict(index=i, point=list(pt), bbox=[list(bb2[0]), list(bb2[1])])
                    break
            if worst:
                break
        ctx.check('C18.bbox.contains_evalpts', worst is None, rc, f, 'every evaluated point inside bbox', worst)
        # local hull at every grid point
        grids = [[lo + (hi - lo) * F(i, n - 1) for i in range(n)] for (lo, hi), n in zip(doms, ns)]
        bad = None
        nd_tot = 0
        for idx in itertools.product(*[range(n) for n in ns]):
            if pd == 1:
                flat = idx[0]
            elif pd == 2:
                flat = idx[1] + ns[1] * idx[0]
            else:
                flat = idx[2] + ns[2] * (idx[1] + ns[1] * idx[0])
            g = tuple(gr[i] for gr, i in zip(grids, idx))
            act = []
            seen = set()
            for spans in _spans_for(model, g, both_sides=True):
                for a in _active(model, U_pts, spans):
                    if a not in seen:
                        seen.add(a)
                        act.append(a)
            wit, nd = support_violation(tuple(F(x) for x in ep[flat]), act, eps, triples and len(act) <= 9)
            nd_tot += nd * len(act)
            if wit is not None:
                bad = dict(wit, grid_index=list(idx), param=[float(x) for x in g], point=list(ep[flat]))
                break
        ctx.extra['inequalities'] += 2 * nd_tot
        ctx.check('C18.hull.support_grid', bad is None, rc, f, 'every grid point in the hull of its active control points', bad)
        if clamped:
            ctx.close('C18.clamped.evalpts_ends', [list(ep[0]), list(ep[-1])], [U_pts[0], U_pts[-1]], 1e-12, maxP, rc, f)

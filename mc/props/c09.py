"""C09 - weights / weighted / unweighted control points stay mutually consistent (E2 + E1)."""
import copy
import itertools
import time
from fractions import Fraction as F

from .. import alphabet as A
from .. import core
from .. import explorer as X
from .. import refmodel as R
from .. import shapes as S

PROPERTY = "C09"
EXPLORERS = ['E2', 'E1']
RULE = ("E2: BFS over histories of {set ctrlpts (2 nets), set weights (2 vectors), set ctrlptsw (2 nets), set_ctrlpts, "
        "read ctrlpts, read weights, read ctrlptsw} on NURBS Curve/Surface/Volume, view relation judged in every state; "
        "E1: helper pairs on all coded nets x weight vectors, GridWeighted for all division pairs 1..4 x 1..4 x weight "
        "vectors and read/set orders, bspline<->nurbs conversion and uniform weight scaling on the C01 shape alphabet; "
        "non-trivial = at least one non-unit weight")
ASSUMPTIONS = [
    "values read from getters are copied before reuse as arguments",
    "'each grid point's own weight' means the weight at the library's flat index v + size_v*u of grid[u][v]",
    "division by a weight and multiplication back may differ by rounding: 1e-12 relative tolerance on round trips",
]
TOL = 1e-12


def bounds(tier):
    return dict(quick=dict(history_depth=4, grid_divisions='1..4 x 1..4 + 7 large up to 16x15, 1x128', conversion='degrees<=3 curves, <=2 surfaces/volumes'),
                thorough=dict(history_depth=6, grid_divisions='1..5 x 1..5 + 10 large up to 30x31', conversion='degrees<=3'))[tier]


# ----------------------------------------------------------------------------------------
# E2 system
# ----------------------------------------------------------------------------------------

def _seed_desc(kind):
    if kind == 'curve':
        return A.shape_desc([[0, 0, 0, 0.5, 1, 1, 1]], [2], True, 3, 'coded', 'coded')
    if kind == 'surface':
        return A.shape_desc([[0, 0, 0, 0.5, 1, 1, 1], [0, 0, 1, 1]], [2, 1], True, 3, 'coded', 'coded')
    return A.shape_desc([[0, 0, 1, 1], [0, 0, 0.5, 1, 1], [0, 0, 1, 1]], [1, 1, 1], True, 3, 'coded', 'coded')


def _cp(x):
    return [list(p) if isinstance(p, (list, tuple)) else p for p in x]


def _rmw_weight(w):
    return 0.25 if abs(w - 0.25) > 1e-9 else 0.75


def _rmw_coord(c):
    return 2.5 if abs(c - 2.5) > 1e-9 else -1.5


class ViewSystem(object):
    def __init__(self, kind, seed=0):
        self.kind, self.seed = kind, seed
        self.desc = _seed_desc(kind)
        self.sizes = self.desc['sizes']
        self.pd = self.desc['pdim']

    def initial(self):
        return S.build(self.desc, self.seed)

    def ops(self, obj):
        return [['read', 'ctrlpts'], ['read', 'weights'], ['read', 'ctrlptsw'],
                ['ctrlpts', 0], ['ctrlpts', 1], ['weights', 0], ['weights', 1],
                ['ctrlptsw', 0], ['ctrlptsw', 1], ['set_ctrlpts', 0],
                # data variety: all weights equal (not 1), weights < 0.1 and > 100, negative fractional points
                ['weights', 2], ['weights', 3], ['ctrlpts', 2],
                # read-modify-write: the list a view returned is edited in place and assigned back, the same object
                ['rmw', 'weights'], ['rmw', 'ctrlpts']] + \
            ([['method', 'reverse']] if self.pd == 1 else [['method', 'transpose']] if self.pd == 2 else [])

    def value(self, op):
        k, i = op
        if k in ('method', 'rmw'):
            return None
        if k == 'ctrlpts':
            if i == 2:
                return A.make_net(self.sizes, 3, 'negfrac')
            pts = A.make_net(self.sizes, 3, 'coded' if i == 0 else 'seeded', 7 + self.seed)
            return [[c + (0.5 if i == 0 else 0.0) for c in p] for p in pts]
        if k == 'weights':
            return A.make_weights(self.sizes, ['spike', 'seeded', 'equal5', 'extreme'][i], 3 + self.seed)
        pts = A.make_net(self.sizes, 3, 'seeded', 21 + i + self.seed)
        w = A.make_weights(self.sizes, 'coded' if i == 0 else 'seeded', 9 + self.seed)
        return [[c * wi for c in p] + [wi] for p, wi in zip(pts, w)]

    def apply(self, obj, op):
        k = op[0]
        if k == 'read':
            return _cp(getattr(obj, op[1]))
        if k == 'method':
            # structural edits offered as methods of the object: the three views have to follow together
            getattr(obj, op[1])()
            return None
        if k == 'rmw':
            view = getattr(obj, op[1])
            j = len(view) // 2
            if op[1] == 'weights':
                view[j] = _rmw_weight(view[j])
            else:
                view[j][0] = _rmw_coord(view[j][0])
            setattr(obj, op[1], view)
            return None
        v = copy.deepcopy(self.value(op))
        if k == 'ctrlpts':
            obj.ctrlpts = v
        elif k == 'weights':
            obj.weights = v
        elif k == 'ctrlptsw':
            obj.ctrlptsw = v
        elif k == 'set_ctrlpts':
            if self.pd == 1:
                obj.set_ctrlpts(v)
            else:
                obj.set_ctrlpts(v, *list(obj.cpsize))      # (current sizes: a transpose may have swapped them)
        # the caller owns the lists it passed in: overwrite them after the call (a shape that kept a reference to its
        # argument instead of its own copy now shows it)
        for i in range(len(v)):
            if isinstance(v[i], list):
                for j in range(len(v[i])):
                    v[i][j] = 11.5 + j
            else:
                v[i] = 11.5 + i
        return None

    def judge(self, ctx, hist, op, obj, obs, pre):
        feats = dict(kind=self.kind, op=op[0], depth=len(hist) + 1)
        rc = dict(mode='history', kind=self.kind, history=hist + [op])
        base = 'C09.%s.' % self.kind
        # values before the op, from an independent replay (so that reading does not disturb obj)
        if op[0] != 'read':
            before, _ = X.replay(self, hist)
            w0 = _cp(before.weights)
            p0 = _cp(before.ctrlpts)
        # order of the three reads is itself part of the history alphabet; here a fixed order
        Pw = _cp(obj.ctrlptsw)
        P = _cp(obj.ctrlpts)
        W = _cp(obj.weights)
        n = 1
        for s in self.sizes:
            n *= s
        ctx.check(base + 'view.sizes', len(Pw) == len(P) == len(W) == n, rc, feats, n, [len(Pw), len(P), len(W)])
        if len(Pw) == len(P) == len(W):
            exp = [[c * w for c in p] + [w] for p, w in zip(P, W)]
            ctx.close(base + 'view.relation', Pw, exp, TOL, 1.0, rc, feats)
            ctx.check(base + 'view.positive_weights', all(w > 0 for w in W), rc, feats, '>0', W)
        if op[0] == 'read':
            # the observation made at the end of the history must be the current view
            cur = dict(ctrlpts=P, weights=W, ctrlptsw=Pw)[op[1]]
            ctx.close(base + 'read.' + op[1], obs, cur, TOL, 1.0, rc, feats)
            ctx.outcome(core.jhash(obs))
            return
        v = self.value(op)
        # the same edit applied to a deep copy must leave the original's views alone and give the copy consistent views
        c = copy.deepcopy(before)
        self.apply(c, op)
        cPw, cP, cW = _cp(c.ctrlptsw), _cp(c.ctrlpts), _cp(c.weights)
        ctx.close(base + 'copy.edited_copy_equals_edited_original', [cPw, cP, cW], [Pw, P, W], TOL, 1.0, rc, feats)
        ctx.close(base + 'copy.original_views_kept', [_cp(before.ctrlpts), _cp(before.weights)], [p0, w0], TOL, 1.0, rc, feats)
        bPw = _cp(before.ctrlptsw)
        ctx.close(base + 'copy.original_view_relation', bPw, [[x * w for x in p] + [w] for p, w in zip(p0, w0)], TOL, 1.0, rc, feats)
        if op[0] == 'method':
            if op[1] == 'reverse':
                ctx.close(base + 'method.reverse.views_follow', [P, W], [list(reversed(p0)), list(reversed(w0))], TOL, 1.0, rc, feats)
            else:
                su, sv = before.cpsize
                tr = lambda L: [L[v_ + sv * u_] for v_ in range(sv) for u_ in range(su)]
                ctx.close(base + 'method.transpose.views_follow', [P, W], [tr(p0), tr(w0)], TOL, 1.0, rc, feats)
        elif op[0] == 'rmw':
            j = len(w0) // 2
            ew, ep_ = list(w0), [list(p) for p in p0]
            if op[1] == 'weights':
                ew[j] = _rmw_weight(w0[j])
            else:
                ep_[j][0] = _rmw_coord(p0[j][0])
            ctx.close(base + 'read_modify_write.%s.reads_back' % op[1], [P, W], [ep_, ew], TOL, 1.0, rc, feats)
        elif op[0] == 'ctrlpts':
            ctx.close(base + 'set_ctrlpts_view.reads_back', P, v, TOL, 1.0, rc, feats)
            ctx.close(base + 'set_ctrlpts_view.keeps_weights', W, w0, TOL, 1.0, rc, feats)
        elif op[0] == 'weights':
            ctx.close(base + 'set_weights.reads_back', W, v, TOL, 1.0, rc, feats)
            ctx.close(base + 'set_weights.keeps_points', P, p0, TOL, 1.0, rc, feats)
        else:
            ctx.close(base + 'set_ctrlptsw.reads_back', Pw, v, 0.0, 1.0, rc, feats)


# ----------------------------------------------------------------------------------------
# cases
# ----------------------------------------------------------------------------------------

def gen_cases(tier, seed):
    q = tier == 'quick'
    depth = 4 if q else 6
    cases = []
    for kind in ('curve', 'surface', 'volume'):
        vs = ViewSystem(kind)
        cases.append(dict(mode='bfs', kind=kind, depth=depth, prefix=None))
        for op in vs.ops(None):
            cases.append(dict(mode='bfs', kind=kind, depth=depth, prefix=[op]))
    # helpers
    for sizes in ([3], [5], [2, 3], [3, 2], [4, 3], [2, 3, 4], [3, 2, 2]):
        for dim in (2, 3):
            if len(sizes) == 3 and dim == 2:
                continue
            for wk in ('ones', 'coded', 'spike', 'seeded'):
                for net in ('coded', 'seeded'):
                    cases.append(dict(mode='helpers', sizes=sizes, dim=dim, weights=wk, net=net))
            for wk in A.VARIETY_WEIGHTS:
                for net in ('coded', 'negfrac', 'large', 'tiny', 'coincident'):
                    cases.append(dict(mode='helpers', sizes=sizes, dim=dim, weights=wk, net=net))
            for net in ('negfrac', 'large', 'tiny', 'zeroplane', 'coincident'):
                cases.append(dict(mode='helpers', sizes=sizes, dim=dim, weights='coded', net=net))
    # weighted grid
    dmax = 4 if q else 5
    for nu, nv in itertools.product(range(1, dmax + 1), repeat=2):
        for wk in ('coded', 'seeded', 'spike'):
            for order in ('set_read', 'read_set_read', 'set_read_set_read', 'default_read'):
                cases.append(dict(mode='grid', nu=nu, nv=nv, weights=wk, order=order))
    # grids beyond the small sizes: one long direction, more than 9 per direction, more than 256 points in total
    for nu, nv in ((1, 11), (12, 2), (9, 10), (16, 15), (15, 16), (1, 128), (42, 5)) + (() if q else ((20, 20), (2, 85), (30, 31))):
        for wk in ('coded', 'seeded'):
            for order in ('set_read', 'read_set_read', 'set_read_set_read', 'default_read'):
                cases.append(dict(mode='grid', nu=nu, nv=nv, weights=wk, order=order))
    # helpers and conversions on shapes with degree up to 6, 12 control points per direction, more than 256 control points
    from .. import util_knots as K
    for sizes in ([258], [17, 18], [9, 5, 6], [3, 4, 33], [12], [11, 3]):
        for wk in ('coded', 'seeded'):
            cases.append(dict(mode='helpers', sizes=sizes, dim=3, weights=wk, net='coded'))
    for d in K.tall_curve_shapes(tier)[::2][::3] + K.tall_surface_shapes(tier)[::5] + [h for h in K.huge_shapes(tier) if not h['rational']]:
        cases.append(dict(mode='convert', shape=dict(d, rational=False, weights='ones')))
    for d in K.tall_curve_shapes(tier)[1::2][::3] + K.tall_surface_shapes(tier)[1::4] + [h for h in K.huge_shapes(tier) if h['rational']]:
        cases.append(dict(mode='scale_weights', shape=dict(d, rational=True, weights='coded')))
        cases.append(dict(mode='convert_rational', shape=dict(d, rational=True, weights='le1')))
    # data variety on shapes: unit and equal weights scaled, extreme weights, unusual coordinates, dimensions, input types
    for d in K.variety_shapes(tier):
        if d['rational']:
            cases.append(dict(mode='scale_weights', shape=d))
            cases.append(dict(mode='convert_rational', shape=dict(d, weights='le1')))
        else:
            cases.append(dict(mode='convert', shape=d))
    for pdk, (kvs, degs) in enumerate((([A.clamped_kv(2, [(0.5, 1)])], [2]), ([A.clamped_kv(1, []), A.clamped_kv(2, [(0.5, 1)])], [1, 2]))):
        for wk in ('ones', 'equal5'):
            cases.append(dict(mode='scale_weights', shape=A.shape_desc(kvs, degs, True, 3, 'coded', wk)))
    cases.append(dict(mode='session', name='sizes'))
    # conversion + weight scaling on shapes
    degs1 = [1, 2, 3]
    for p in degs1:
        for kv in A.rep_kvs(p, 1 if q else 2):
            cases.append(dict(mode='convert', shape=A.shape_desc([kv], [p], False, 3, 'coded')))
            for wk in ('coded', 'spike'):
                cases.append(dict(mode='scale_weights', shape=A.shape_desc([kv], [p], True, 3, 'coded', wk)))
            for wk in ('coded', 'spike', 'le1', 'seeded', 'mean1', 'arc'):
                cases.append(dict(mode='convert_rational', shape=A.shape_desc([kv], [p], True, 3, 'coded', wk)))
    d2 = [1, 2] if q else [1, 2, 3]
    for pu, pv in itertools.product(d2, d2):
        for ku in A.rep_kvs(pu, 1)[:3]:
            for kv in A.rep_kvs(pv, 1)[:3]:
                if len(ku) - pu == len(kv) - pv:
                    continue
                cases.append(dict(mode='convert', shape=A.shape_desc([ku, kv], [pu, pv], False, 3, 'coded')))
                cases.append(dict(mode='scale_weights', shape=A.shape_desc([ku, kv], [pu, pv], True, 3, 'coded', 'coded')))
                for wk in ('le1', 'spike', 'mean1'):
                    cases.append(dict(mode='convert_rational', shape=A.shape_desc([ku, kv], [pu, pv], True, 3, 'coded', wk)))
    for pu, pv, pw in itertools.product([1, 2], repeat=3):
        ku, kv, kw = A.rep_kvs(pu, 1)[1], A.rep_kvs(pv, 1)[0], A.rep_kvs(pw, 1)[2]
        if pu + pv + pw > (4 if q else 6):
            continue
        cases.append(dict(mode='convert', shape=A.shape_desc([ku, kv, kw], [pu, pv, pw], False, 3, 'coded')))
        cases.append(dict(mode='scale_weights', shape=A.shape_desc([ku, kv, kw], [pu, pv, pw], True, 3, 'coded', 'coded')))
        cases.append(dict(mode='convert_rational', shape=A.shape_desc([ku, kv, kw], [pu, pv, pw], True, 3, 'coded', 'le1')))
    return cases


def case_weight(c):
    if c['mode'] == 'session':
        return 200
    return 50 if c['mode'] == 'bfs' and c.get('prefix') else 1


def _session_cases(name, tier):
    """long session: the view helpers and the conversions for 4..75 control points in increasing order (72 distinct sizes)"""
    out = []
    for n in range(4, 76):
        out.append(dict(mode='helpers', sizes=[n], dim=3, weights='coded' if n % 2 else 'ones', net='coded'))
        out.append(dict(mode='convert', shape=A.shape_desc([A.uniform_kv(1 + n % 3, n)], [1 + n % 3], False, 3, 'coded')))
        if n % 4 == 0:
            out.append(dict(mode='grid', nu=1, nv=n - 1, weights='coded', order='set_read'))
    return out


def run_case(case, ctx):
    m = case['mode']
    if m == 'session':
        import sys
        return core.run_session(sys.modules[__name__], ctx, case, _session_cases(case['name'], ctx.tier), 16)
    if m == 'bfs':
        sysm = ViewSystem(case['kind'], ctx.seed)
        st = X.bfs(sysm, ctx, case['depth'], deadline=time.time() + (500 if ctx.tier == 'quick' else 3000),
                   prefix=case.get('prefix'), expand=case.get('prefix') is not None, label='views/' + case['kind'])
        for k in ('states', 'transitions', 'merged', 'determinism_checks'):
            ctx.extra['bfs_' + k] += st[k]
        if not st['frontier_exhausted']:
            ctx.extra['bfs_capped'] += 1
    elif m == 'history':
        sysm = ViewSystem(case['kind'], ctx.seed)
        hist = case['history']
        obj, _ = X.replay(sysm, hist[:-1])
        obs = sysm.apply(obj, hist[-1])
        sysm.judge(ctx, hist[:-1], hist[-1], obj, obs, None)
    elif m == 'helpers':
        _helpers(case, ctx)
    elif m == 'grid':
        _grid(case, ctx)
    elif m == 'convert':
        _convert(case, ctx)
    elif m == 'scale_weights':
        _scale_weights(case, ctx)
    elif m == 'convert_rational':
        _convert_rational(case, ctx)


# ----------------------------------------------------------------------------------------
# E1 parts
# ----------------------------------------------------------------------------------------

def _helpers(case, ctx):
    from geomdl import compatibility as C
    sizes, dim = case['sizes'], case['dim']
    P = A.make_net(sizes, dim, case['net'], ctx.seed)
    W = A.make_weights(sizes, case['weights'], ctx.seed)
    feats = dict(pdim=len(sizes), dim=dim, weights=case['weights'])
    ctx.state(case, nontrivial=case['weights'] != 'ones')
    Pw = C.combine_ctrlpts_weights(copy.deepcopy(P), list(W))
    exp = [[F(c) * F(w) for c in p] + [F(w)] for p, w in zip(P, W)]
    ctx.close('C09.helpers.combine.definition', Pw, exp, 1e-15, 1.0, case, feats)
    back = C.separate_ctrlpts_weights(copy.deepcopy(Pw))
    ctx.close('C09.helpers.separate_inverts_combine', [back[0], back[1]], [P, W], TOL, 1.0, case, feats)
    again = C.combine_ctrlpts_weights(back[0], back[1])
    ctx.close('C09.helpers.combine_inverts_separate', again, Pw, TOL, 1.0, case, feats)
    ones = C.combine_ctrlpts_weights(copy.deepcopy(P))
    ctx.close('C09.helpers.combine.default_unit_weights', ones, [list(p) + [1.0] for p in P], 0.0, 1.0, case, feats)
    # (x,y,z,w) <-> (xw,yw,zw,w)
    Pxw = [list(p) + [w] for p, w in zip(P, W)]
    gw = C.generate_ctrlptsw(copy.deepcopy(Pxw))
    ctx.close('C09.helpers.generate_ctrlptsw.definition', gw, exp, 1e-15, 1.0, case, feats)
    ctx.close('C09.helpers.generate_ctrlpts_weights.inverse', C.generate_ctrlpts_weights(copy.deepcopy(gw)), Pxw, TOL, 1.0, case, feats)
    ctx.close('C09.helpers.generate_ctrlptsw.inverse', C.generate_ctrlptsw(C.generate_ctrlpts_weights(copy.deepcopy(Pw))), Pw, TOL, 1.0,
              case, feats)
    if len(sizes) == 2:
        su, sv = sizes
        g2 = [[Pxw[v + sv * u] for v in range(sv)] for u in range(su)]
        e2 = [[exp[v + sv * u] for v in range(sv)] for u in range(su)]
        w2 = C.generate_ctrlptsw2d(copy.deepcopy(g2))
        ctx.close('C09.helpers.generate_ctrlptsw2d.definition', w2, e2, 1e-15, 1.0, case, feats)
        ctx.close('C09.helpers.generate_ctrlpts2d_weights.inverse', C.generate_ctrlpts2d_weights(copy.deepcopy(w2)), g2, TOL, 1.0,
                  case, feats)
    ctx.check('C09.helpers.inputs_unchanged', P == A.make_net(sizes, dim, case['net'], ctx.seed), case, feats)


def _grid(case, ctx):
    from geomdl import CPGen
    nu, nv = case['nu'], case['nv']
    su, sv = nu + 1, nv + 1
    feats = dict(nu=nu, nv=nv, square=(nu == nv), order=case['order'], weights=case['weights'])
    ctx.state(case, nontrivial=True)
    g = CPGen.GridWeighted(float(2 * nu), float(3 * nv))
    g.generate(nu, nv)
    W1 = A.make_weights([su, sv], case['weights'], ctx.seed)
    W2 = A.make_weights([su, sv], 'coded' if case['weights'] != 'coded' else 'seeded', ctx.seed + 1)
    plain = CPGen.Grid(float(2 * nu), float(3 * nv))
    plain.generate(nu, nv)
    base = [[list(pt) for pt in row] for row in plain.grid]

    def judge(tag, W):
        grid = g.grid
        ok_shape = len(grid) == su and all(len(r) == sv for r in grid)
        ctx.check('C09.grid.shape', ok_shape, case, feats, [su, sv], [len(grid), [len(r) for r in grid]])
        if not ok_shape:
            return
        exp = [[[F(c) * F(W[v + sv * u]) for c in base[u][v]] + [F(W[v + sv * u])] for v in range(sv)] for u in range(su)]
        ctx.close('C09.grid.own_weight.' + tag, grid, exp, 1e-15, 1.0, case, feats)

    order = case['order']
    if order == 'default_read':
        judge('default', [1.0] * (su * sv))
    elif order == 'set_read':
        g.weight = list(W1)
        judge('first', W1)
    elif order == 'read_set_read':
        _ = g.grid
        g.weight = list(W1)
        judge('after_read', W1)
    else:
        g.weight = list(W1)
        _ = g.grid
        g.weight = list(W2)
        judge('after_reset', W2)
    ctx.close('C09.grid.weight_reads_back', list(g.weight), W2 if order == 'set_read_set_read' else
              ([1.0] * (su * sv) if order == 'default_read' else W1), 0.0, 1.0, case, feats)
    # the weight view and the weights inside the grid points stay consistent with each other whatever was requested in between,
    # rejected requests included (a weight vector of the wrong length, one without a positive entry)
    for bad in ([2.0] * (su * sv - 1), [0.0] * (su * sv), [2.0] * (su * sv + 1)):
        try:
            g.weight = list(bad)
        except Exception:
            pass
        wv = list(g.weight) if isinstance(g.weight, (list, tuple)) else g.weight
        grid = g.grid
        flat_w = [grid[u][v][-1] for u in range(len(grid)) for v in range(len(grid[u]))]
        f2 = dict(feats, after_rejected=len(bad))
        ok = isinstance(wv, list) and len(wv) == len(flat_w) == su * sv and all(a == b for a, b in zip(wv, flat_w))
        ctx.check('C09.grid.views_consistent_after_rejected', ok, case, f2, 'weight view == weights inside the grid points',
                  dict(weight=wv if not isinstance(wv, list) else wv[:6], grid_weights=flat_w[:6], sizes=[len(wv) if isinstance(wv, list) else None, len(flat_w)]))


def _params(desc, kvs):
    sets = []
    for kv, p in zip(kvs, desc['degrees']):
        per = 2 * p + 1 if desc['pdim'] == 1 else (p + 1 if desc['pdim'] == 2 else 1)
        sets.append(A.params_for(p, kv, per_span=per, extras=False))
    return list(itertools.product(*sets))


def _mapped(fp, m_from, m_to):
    """the parameter of m_to that corresponds to fp of m_from under the affine map between their domains (conversions
    build a new object, which normalises its knot vectors unless told otherwise)"""
    out = []
    for u, kf, kt, p in zip(fp, m_from['kvs'], m_to['kvs'], m_from['degrees']):
        lo, hi = kf[p], kf[-(p + 1)]
        lo2, hi2 = kt[p], kt[-(p + 1)]
        out.append(u if (lo, hi) == (lo2, hi2) else lo2 + (u - lo) * (hi2 - lo2) / (hi - lo))
    return out


def _convert(case, ctx):
    from geomdl import convert
    desc = case['shape']
    obj = S.build(desc, ctx.seed)
    feats = dict(pdim=desc['pdim'], degrees=desc['degrees'])
    ctx.state(desc, nontrivial=True)
    model = R.def_from_obj(obj)
    scale = S.max_abs(model)
    nur = convert.bspline_to_nurbs(obj)
    ctx.check('C09.convert.to_nurbs.rational', nur.rational is True and nur is not obj, case, feats)
    ctx.close('C09.convert.to_nurbs.unit_weights', list(nur.weights), [1.0] * len(model['P']), 0.0, 1.0, case, feats)
    m2 = R.def_from_obj(nur)
    back = convert.nurbs_to_bspline(nur)
    ctx.check('C09.convert.to_bspline.nonrational', back.rational is False, case, feats)
    m3 = R.def_from_obj(back)
    for prm in _params(desc, [[float(k) for k in kv] for kv in model['kvs']]):
        fp = [F(x) for x in prm]
        e = R.eval_point(model, fp)
        same_dom = _mapped(fp, model, m2) == fp and _mapped(fp, model, m3) == fp
        tol0 = 0.0 if same_dom else 1e-12
        ctx.close('C09.convert.to_nurbs.same_points', R.eval_point(m2, _mapped(fp, model, m2)), e, tol0, scale, dict(case, params=list(prm)), feats)
        ctx.close('C09.convert.to_bspline.same_points', R.eval_point(m3, _mapped(fp, model, m3)), e, tol0, scale, dict(case, params=list(prm)), feats)
        a2 = [float(x) for x in _mapped(fp, model, m2)]
        a3 = [float(x) for x in _mapped(fp, model, m3)]
        ctx.close('C09.convert.to_nurbs.library_eval', nur.evaluate_single(a2[0] if desc['pdim'] == 1 else a2), e, 1e-9, scale,
                  dict(case, params=list(prm)), feats)
        ctx.close('C09.convert.to_bspline.library_eval', back.evaluate_single(a3[0] if desc['pdim'] == 1 else a3), e, 1e-9, scale,
                  dict(case, params=list(prm)), feats)
    ctx.check('C09.convert.input_unchanged', S.snapshot(obj) == S.snapshot(S.build(desc, ctx.seed)), case, feats)


def _convert_rational(case, ctx):
    """nurbs_to_bspline on a genuinely rational shape: whatever it returns must evaluate identically"""
    from geomdl import convert
    desc = case['shape']
    obj = S.build(desc, ctx.seed)
    feats = dict(pdim=desc['pdim'], degrees=desc['degrees'], weights=desc['weights'])
    ctx.state(desc, nontrivial=True)
    model = R.def_from_obj(obj)
    scale = S.max_abs(model)
    res = convert.nurbs_to_bspline(obj)
    m2 = R.def_from_obj(res)
    for prm in _params(desc, [[float(k) for k in kv] for kv in model['kvs']]):
        fp = [F(x) for x in prm]
        e = R.eval_point(model, fp)
        ctx.close('C09.convert.rational_input.same_points', R.eval_point(m2, _mapped(fp, model, m2)), e, 1e-12, scale,
                  dict(case, params=list(prm)), feats)
        a2 = [float(x) for x in _mapped(fp, model, m2)]
        ctx.close('C09.convert.rational_input.library_eval', res.evaluate_single(a2[0] if desc['pdim'] == 1 else a2), e, 1e-9, scale,
                  dict(case, params=list(prm)), feats)


def _scale_weights(case, ctx):
    desc = case['shape']
    pts, w, pw = S.net_points(desc, ctx.seed)
    obj = S.build(desc, ctx.seed)
    feats = dict(pdim=desc['pdim'], degrees=desc['degrees'], weights=desc['weights'])
    ctx.state(desc, nontrivial=True)
    scale = max(1.0, max(abs(c) for p in pts for c in p))
    model = R.def_from_obj(obj)
    prms = _params(desc, [[float(k) for k in kv] for kv in model['kvs']])
    ref = [obj.evaluate_single(p[0] if desc['pdim'] == 1 else list(p)) for p in prms]
    model = R.def_from_obj(obj)
    for c in (2.0, 0.5, 3.0):
        o2 = S.build(desc, ctx.seed)
        o2.weights = [wi * c for wi in w]
        f2 = dict(feats, factor=c)
        ctx.close('C09.scale_weights.points_kept', _cp(o2.ctrlpts), pts, TOL, 1.0, case, f2)
        got = [o2.evaluate_single(p[0] if desc['pdim'] == 1 else list(p)) for p in prms]
        ctx.close('C09.scale_weights.no_point_moves', got, ref, 1e-9, scale, case, f2)
        m2 = R.def_from_obj(o2)
        for prm in prms[:: max(1, len(prms) // 9)]:
            fp = [F(x) for x in prm]
            ctx.close('C09.scale_weights.model', R.eval_point(m2, fp), R.eval_point(model, fp), 1e-12, scale,
                      dict(case, params=list(prm)), f2)

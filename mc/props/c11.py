"""C11 - fitted curves and surfaces meet interpolation and least-squares conditions (explorer E1)."""
import itertools
import math
from fractions import Fraction as F

from .. import refmodel as R

PROPERTY = "C11"
EXPLORERS = ['E1']
RULE = ("E1: curves: every sequence of n points of the 3x3 integer lattice (2-D) and of {0,1}^3 (3-D) with distinct "
        "consecutive points (n = 3..5 quick, 3..6 thorough; the largest n of a tier only one representative per orbit of "
        "the lattice symmetry group), every degree 1..n-1, chord-length and centripetal parameters, every control point "
        "count degree+2..n-1 for approximation; long inputs n in {8,12,20,40}: +-staircase patterns Q_k = Q_(k-1) + "
        "(1 + k mod 3, +-(1 + k mod 2)) (all 2^(n-1) sign patterns for n = 8 (thorough also n = 12), rule-generated "
        "patterns otherwise); surfaces: every 0/1 height assignment (512 nets) on a non-uniform, optionally skewed 3x3 "
        "lattice, coded heights on grids {3,4,5}^2 with different sizes per direction plus a few long grids, degrees "
        "1..min(3,size-1), every control net size for approximation; non-trivial = at least two different chord lengths")
ASSUMPTIONS = [
    "the data parameters are recomputed by the harness in binary64 (chord length / centripetal, Eqs 9.4-9.6; surfaces: mean over "
    "all rows / all columns) - square roots cannot be exact; basis functions are then evaluated exactly (Fractions) on those "
    "floats and on the knot vector of the returned object",
    "tolerance 1e-7 * max(1, max|Q|) for interpolated points, end/corner points and the least-squares gradient",
    "long inputs (n >= 8): degree <= 19 (n = 40: 1..12, 15, 19).  Above that the collocation matrix of global interpolation "
    "is so ill conditioned (growth about 2^degree) that rounding alone exceeds the tolerance: measured 6e-7 relative at "
    "n = 40, degree 33 and 4e-4 at degree 39 on the staircase data; that is rounding, not a logic error, and outside scope",
    "surface data: every row and every column has distinct consecutive points (x,y on a lattice), so no degenerate row occurs",
    "orbit representatives: a fit of a reflected/rotated data set is the reflected/rotated fit; only used for the largest n",
]
TOL = 1e-7

LONG_N = (8, 12, 20, 40)


def bounds(tier):
    return dict(
        quick=dict(lattice_2d='n=3,4 all sequences; n=5 one per orbit (8 symmetries)',
                   cube_3d='n=3,4 all sequences; n=5 one per orbit (48 symmetries)',
                   degrees='1..n-1', parametrisation='chord, centripetal', approx_ctrlpts='degree+2..n-1',
                   long='n=8: 128 patterns, degrees 1..7; n=12: 24 patterns, degrees 1..11; n=20: 6 patterns, degrees 1..5,7; '
                        'n=40: 3 patterns, degrees 1..3,5; approximation counts {p+2,p+3,(n+p)/2,n-2,n-1}',
                   surfaces='3x3: 512 height nets x 1 lattice; (3,4),(4,3),(4,5),(5,4),(3,5),(5,3),(8,5) x 2 codes; degrees<=3'),
        thorough=dict(lattice_2d='n=3,4,5 all sequences; n=6 one per orbit (8 symmetries)',
                      cube_3d='n=3,4,5 all sequences; n=6 one per orbit (48 symmetries)',
                      degrees='1..n-1', parametrisation='chord, centripetal', approx_ctrlpts='degree+2..n-1',
                      long='n=8: 128 patterns; n=12: 2048 patterns (degrees 1..11; approximation degrees 1..5); n=20: 64 patterns, '
                           'degrees 1..12,15,19; n=40: 64 patterns, degrees 1..7 (8 patterns: ..12,15,19); every approximation count '
                           '(approximation degrees: n=20 <= 7, n=40 <= 3 and 5 on 8 patterns)',
                      surfaces='3x3: 512 height nets x 3 lattices; {3,4,5}^2 all pairs x 4 codes x 3 lattices; '
                               '(8,5),(5,8),(12,6),(20,4),(4,40) x 2 codes; degrees<=3'))[tier]


# ----------------------------------------------------------------------------------------
# independent float parameters and exact basis
# ----------------------------------------------------------------------------------------

def chord_params(pts, centripetal):
    """Eqs 9.4-9.6: u_0 = 0, u_k = u_(k-1) + |Q_k - Q_(k-1)|^(1 or 1/2) / total, u_last = 1"""
    ch = []
    for a, b in zip(pts, pts[1:]):
        d = math.sqrt(sum((x - y) * (x - y) for x, y in zip(a, b)))
        ch.append(math.sqrt(d) if centripetal else d)
    tot = math.fsum(ch)
    out = [0.0]
    for k in range(1, len(pts) - 1):
        out.append(min(1.0, math.fsum(ch[:k]) / tot))
    out.append(1.0)
    return out


def surface_params(pts, su, sv, centripetal):
    """pp. 366-367 / A9.3 for data without degenerate rows: u_k = mean over the sv rows of the curve
    parameters along u, v_l = mean over the su columns.  pts[v + sv*u]"""
    rows_u = [chord_params([pts[v + sv * u] for u in range(su)], centripetal) for v in range(sv)]
    uk = [math.fsum(r[u] for r in rows_u) / sv for u in range(su)]
    rows_v = [chord_params([pts[v + sv * u] for v in range(sv)], centripetal) for u in range(su)]
    vl = [math.fsum(r[v] for r in rows_v) / su for v in range(sv)]
    uk[0], vl[0], uk[-1], vl[-1] = 0.0, 0.0, 1.0, 1.0
    return uk, vl


def basis_row(p, U, u):
    """(span s, [N_{s-p,p}(u) .. N_{s,p}(u)]) by the Cox-de Boor recursion (0/0 = 0), exact.
    Only the functions that can be non-zero on the span are carried along."""
    s = R.find_span(p, U, u)
    N = [F(1)]
    for k in range(1, p + 1):
        new = []
        for j in range(k + 1):
            i = s - k + j            # N_{i,k}; previous level holds N_{s-k+1..s, k-1} at index i-(s-k+1)
            acc = F(0)
            if j >= 1:
                den = U[i + k] - U[i]
                if den != 0:
                    acc += (u - U[i]) / den * N[j - 1]
            if j < k:
                den = U[i + k + 1] - U[i + 1]
                if den != 0:
                    acc += (U[i + k + 1] - u) / den * N[j]
            new.append(acc)
        N = new
    return s, N


_SELF = []


def _self_test():
    if _SELF:
        return
    U = tuple(F(x) for x in (0, 0, 0, 0, 0.25, 0.5, 0.5, 1, 1, 1, 1))
    for u in (F(0), F(1, 8), F(1, 4), F(1, 3), F(1, 2), F(7, 8), F(1)):
        s, rows = R.basis_values(3, U, u, 0)
        assert (s, rows[0]) == basis_row(3, U, u)
    assert chord_params([(0, 0), (3, 4), (3, 9)], False) == [0.0, 0.5, 1.0]
    _SELF.append(1)


def curve_point(d, N, s):
    p = d['degrees'][0]
    P = d['P']
    dim = len(P[0])
    return [sum((N[j] * P[s - p + j][t] for j in range(p + 1)), F(0)) for t in range(dim)]


def surface_point(d, su_, Nu, sv_, Nv):
    pu, pv = d['degrees']
    nv = d['sizes'][1]
    P = d['P']
    dim = len(P[0])
    acc = [F(0)] * dim
    for a in range(pu + 1):
        if Nu[a] == 0:
            continue
        for b in range(pv + 1):
            c = Nu[a] * Nv[b]
            if c == 0:
                continue
            pt = P[(sv_ - pv + b) + nv * (su_ - pu + a)]
            for t in range(dim):
                acc[t] += c * pt[t]
    return acc


# ----------------------------------------------------------------------------------------
# data alphabets
# ----------------------------------------------------------------------------------------

def _sym2():
    maps = []
    for swap in (False, True):
        for fx in (False, True):
            for fy in (False, True):
                def m(p, swap=swap, fx=fx, fy=fy):
                    x, y = p
                    if swap:
                        x, y = y, x
                    return (2 - x if fx else x, 2 - y if fy else y)
                maps.append(m)
    return maps


def _sym3():
    maps = []
    for perm in itertools.permutations(range(3)):
        for flips in itertools.product((False, True), repeat=3):
            def m(p, perm=perm, flips=flips):
                q = [p[perm[0]], p[perm[1]], p[perm[2]]]
                return tuple(1 - c if f else c for c, f in zip(q, flips))
            maps.append(m)
    return maps


SYM = {2: _sym2(), 3: _sym3()}
LATTICE = {2: [(x, y) for x in range(3) for y in range(3)],
           3: [(x, y, z) for x in range(2) for y in range(2) for z in range(2)]}


def is_canonical(seq, dim):
    t = tuple(seq)
    for m in SYM[dim]:
        if tuple(m(p) for p in seq) < t:
            return False
    return True


def stair_points(n, bits):
    pts = [[0.0, 0.0]]
    for k in range(1, n):
        s = 1.0 if (bits >> (k - 1)) & 1 else -1.0
        pts.append([pts[-1][0] + 1 + k % 3, pts[-1][1] + s * (1 + k % 2)])
    return pts


def stair_patterns(n, count):
    """first `count` members of a fixed list: all -, all +, alternating, then a multiplicative rule"""
    mask = (1 << (n - 1)) - 1
    if count >= mask + 1:
        return list(range(mask + 1))
    out = [0, mask, 0x5555555555555555 & mask, 0x3333333333333333 & mask]
    k = 1
    while len(out) < count:
        b = ((k * 0x9E3779B97F4A7C15) >> 13) & mask
        if b not in out:
            out.append(b)
        k += 1
    return out[:count]


XS = [0.0, 1.0, 3.0, 4.0, 7.0, 8.0, 10.0, 13.0]
YS = [0.0, 2.0, 3.0, 6.0, 7.0, 9.0, 12.0, 13.0]
SKEWS = [(0.0, 0.0), (0.5, 0.0), (0.25, 0.5)]


def _coord(tab, i):
    return tab[i] if i < len(tab) else tab[-1] + 3.0 * (i - len(tab) + 1) + (i % 3)


def _height(code, i, j):
    if code == 0:
        return float((i * i + 2 * j + i * j) % 4)
    if code == 1:
        return float((3 * i + j * j) % 5) - 2.0
    if code == 2:
        return float(i * j % 3) * 2.0
    return float((i + 2 * j) % 2) + 0.5 * i


def surface_points(su, sv, skew, heights):
    a, b = SKEWS[skew]
    pts = []
    for i in range(su):
        for j in range(sv):
            x, y = _coord(XS, i), _coord(YS, j)
            if isinstance(heights, str) and heights.startswith('lift:'):
                # a unit square grid with a small smooth deflection: the u and the v parameters are almost, but not exactly, equal
                # (the deflection is not symmetric under exchanging the two directions)
                pts.append([float(i), float(j), float(heights.split(':')[1]) * (i * i + 2.0 * j) / float(su * su)])
                continue
            if isinstance(heights, str):
                h = _height(int(heights.split(':')[1]), i, j)
            else:
                h = float((heights >> (j + sv * i)) & 1) * 2.0
            pts.append([x + a * y, y + b * x, h])
    return pts


# ----------------------------------------------------------------------------------------
# cases
# ----------------------------------------------------------------------------------------

def gen_cases(tier, seed):
    q = tier == 'quick'
    cases = []
    nmax = 5 if q else 6
    for n in range(3, nmax + 1):
        for dim in (2, 3):
            L = LATTICE[dim]
            plen = 3
            for pre in itertools.product(L, repeat=plen):
                if any(a == b for a, b in zip(pre, pre[1:])):
                    continue
                cases.append(dict(kind='lattice', dim=dim, n=n, prefix=[list(p) for p in pre], orbit=(n == nmax)))
    # long inputs
    plan = dict(quick={8: 128, 12: 24, 20: 6, 40: 3}, thorough={8: 128, 12: 2048, 20: 64, 40: 64})[tier]
    for n in LONG_N:
        for idx, bits in enumerate(stair_patterns(n, plan[n])):
            cases.append(dict(kind='stair', n=n, bits=bits, rank=idx))
    # surfaces
    for skew in ([0] if q else [0, 1, 2]):
        for h in range(512):
            cases.append(dict(kind='surf', su=3, sv=3, skew=skew, heights=h))
    if q:
        sizes = [(3, 4), (4, 3), (4, 5), (5, 4), (3, 5), (5, 3), (8, 5)]
        for su, sv in sizes:
            for code in (0, 1):
                cases.append(dict(kind='surf', su=su, sv=sv, skew=0 if code == 0 else 2, heights='coded:%d' % code))
    else:
        for su, sv in itertools.product((3, 4, 5), repeat=2):
            for code in range(4):
                for skew in (0, 1, 2):
                    cases.append(dict(kind='surf', su=su, sv=sv, skew=skew, heights='coded:%d' % code))
        for su, sv in [(8, 5), (5, 8), (12, 6), (20, 4), (4, 40)]:
            for code in (0, 1):
                cases.append(dict(kind='surf', su=su, sv=sv, skew=0 if code == 0 else 2, heights='coded:%d' % code))
    # data variety: the same stair data far from the origin (geo-referenced coordinates), tiny, negative / fractional, and with
    # a third coordinate; judged with a tolerance that follows from rounding (1e-12 relative to the coordinates) for the far data
    for n in (8, 12):
        for idx, bits in enumerate(stair_patterns(n, 4 if q else 16)):
            base = stair_points(n, bits)
            for name, f, tol in (('far', lambda i, c, t: c + 3.0e8, 1e-11), ('farmix', lambda i, c, t: 1.0e3 * c + 5.0e7 * (t + 1), 1e-11),
                                 ('tiny', lambda i, c, t: 1.0e-6 * c, None), ('negfrac', lambda i, c, t: -0.37 * c + 0.1 * (t + 1), None),
                                 ('farneg3d', lambda i, c, t: c - 2.0e8, 1e-11)):
                pts = [[f(i, c, t) for t, c in enumerate(p + ([float(i % 3)] if name == 'farneg3d' else []))] for i, p in enumerate(base)]
                cdict = dict(kind='curve', family='variety:' + name, pts=pts, degrees=[1, 2, 3, 5], approx_degrees=[2, 3], sparse_counts=True)
                if tol:
                    cdict['tol'] = tol
                cases.append(cdict)
    for n in (3, 4, 5):
        for lift in ('lift:0.004', 'lift:0.001', 'lift:0.05'):
            cases.append(dict(kind='surf', su=n, sv=n, skew=0, heights=lift))
    # history dependence: default-option fits (keyword omitted) after fits that used centripetal=True
    for n in (8, 12):
        for idx, bits in enumerate(stair_patterns(n, 6)):
            cases.append(dict(kind='stair', n=n, bits=bits, rank=idx, centripetal=False, omit_flag=True, prior=True))
    for su, sv in [(3, 4), (4, 5)]:
        cases.append(dict(kind='surf', su=su, sv=sv, skew=2, heights='coded:1', centripetal=False, omit_flag=True, prior=True))
    return cases


def case_weight(c):
    k = c['kind']
    if k == 'lattice':
        n = c['n']
        base = (8 if c['dim'] == 2 else 7) ** (n - 3) * n * n
        return base / (6.0 if c.get('orbit') else 1.0)
    if k == 'stair':
        return c['n'] ** 3 * 2
    if k == 'surf':
        return c['su'] * c['sv'] * 40
    if k == 'curve':
        return len(c['pts']) ** 3 * 2
    return 50


def _cen_kw(case, cen):
    """the option is omitted (library default = chord length) when the case says so"""
    if case.get('omit_flag') and not cen:
        return {}
    return {'centripetal': cen}


def _prior_fits():
    """earlier fits with the non-default option: later fits that omit the option must still use the default"""
    from geomdl import fitting
    pts = [[0.0, 0.0], [1.0, 0.0], [1.0, 3.0], [5.0, 3.0], [5.0, 4.0]]
    grid = [[float(i * i), float(j), float((i + 2 * j) % 3)] for i in range(4) for j in range(4)]
    try:
        fitting.interpolate_curve(pts, 2, centripetal=True)
        fitting.approximate_curve(pts, 2, centripetal=True, ctrlpts_size=4)
        fitting.interpolate_surface(grid, 4, 4, 2, 2, centripetal=True)
        fitting.approximate_surface(grid, 4, 4, 2, 2, centripetal=True, ctrlpts_size_u=3, ctrlpts_size_v=3)
    except Exception:
        pass


def run_case(case, ctx):
    _self_test()
    if case.get('prior'):
        _prior_fits()
    k = case['kind']
    if k == 'lattice':
        _lattice_case(case, ctx)
    elif k == 'stair':
        _stair_case(case, ctx)
    elif k == 'curve':
        _curve(case, ctx)
    elif k == 'surf':
        _surface(case, ctx)
    else:
        raise ValueError(k)


def _lattice_case(case, ctx):
    dim, n = case['dim'], case['n']
    L = LATTICE[dim]
    pre = [tuple(p) for p in case['prefix']]
    if case.get('orbit') and not is_canonical(pre, dim):
        return      # some symmetry maps the prefix to a strictly smaller one, hence every completion too
    for rest in itertools.product(L, repeat=n - len(pre)):
        seq = pre + list(rest)
        if any(a == b for a, b in zip(seq, seq[1:])):
            continue
        if case.get('orbit') and not is_canonical(seq, dim):
            continue
        _curve(dict(kind='curve', family='lattice%d' % dim, pts=[[float(c) for c in p] for p in seq]), ctx)


def _stair_degrees(n, rank, tier):
    if tier == 'quick':
        return {8: list(range(1, 8)), 12: list(range(1, 12)), 20: [1, 2, 3, 4, 5, 7], 40: [1, 2, 3, 5]}[n]
    if n <= 12:
        return list(range(1, n))
    if n == 20:
        return list(range(1, 13)) + [15, 19]
    return list(range(1, 13)) + [15, 19] if rank < 8 else list(range(1, 8))


def _stair_case(case, ctx):
    n = case['n']
    pts = stair_points(n, case['bits'])
    degs = _stair_degrees(n, case.get('rank', 0), ctx.tier)
    if ctx.tier == 'quick':
        adeg = [p for p in degs if p <= 5]
        sparse = True
    else:
        adeg = [p for p in degs if p <= (3 if n == 40 else 5 if n == 12 else 7)]
        if n == 40 and case.get('rank', 0) < 8:
            adeg.append(5)
        sparse = False
    _curve(dict(kind='curve', family='stair', pts=pts, degrees=degs, approx_degrees=adeg, sparse_counts=sparse), ctx)


# ----------------------------------------------------------------------------------------
# curves
# ----------------------------------------------------------------------------------------

def _curve(case, ctx):
    from geomdl import fitting
    pts = [list(map(float, p)) for p in case['pts']]
    n, dim = len(pts), len(pts[0])
    fam = case.get('family', 'replay')
    scale = max(1.0, max(abs(c) for p in pts for c in p))
    TOL = case.get('tol', globals()['TOL'])
    chords = [sum((x - y) ** 2 for x, y in zip(a, b)) for a, b in zip(pts, pts[1:])]
    equal_chords = len(set(chords)) == 1
    ctx.state('c%d:' % dim + ','.join('%g' % c for p in pts for c in p), nontrivial=not equal_chords)
    base = dict(kind='curve', family=fam, pts=pts)
    if 'tol' in case:
        base['tol'] = case['tol']
    only_op = case.get('op')
    degs = [case['degree']] if 'degree' in case else case.get('degrees') or list(range(1, n))
    cens = [bool(case['centripetal'])] if 'centripetal' in case else [False, True]
    adegs = case.get('approx_degrees')
    for cen in cens:
        ub = chord_params(pts, cen)
        ubf = [F(u) for u in ub]
        for p in degs:
            feats = dict(shape='curve', family=fam, dim=dim, n=n, degree=p, centripetal=cen, equal_chords=equal_chords,
                         full_degree=(p == n - 1), closed=(pts[0] == pts[-1]))
            # ---------------- interpolation
            if only_op in (None, 'interp'):
                rc = dict(base, degree=p, centripetal=cen, op='interp')
                ctx.extra['fits'] += 1
                try:
                    crv = fitting.interpolate_curve([list(q) for q in pts], p, **_cen_kw(case, cen))
                except Exception as e:
                    ctx.check('C11.interp.curve.returns', False, rc, feats, 'a curve', repr(e))
                    crv = None
                if crv is not None:
                    ctx.check('C11.interp.curve.returns', True, rc, feats)
                    ctx.check('C11.interp.curve.degree', crv.degree == p, rc, feats, p, crv.degree)
                    d = R.def_from_obj(crv)
                    got = _curve_values(d, ubf)
                    ctx.close('C11.interp.curve.passes_through', got, pts, TOL, scale, rc, feats)
                    ctx.outcome('i%d%d' % (p, cen) + ','.join('%.5g' % float(c) for c in d['P'][min(1, len(d['P']) - 1)]))
            # ---------------- approximation
            if only_op in (None, 'approx') and (adegs is None or p in adegs):
                counts = list(range(p + 2, n))
                if case.get('sparse_counts'):
                    counts = sorted(set(c for c in (p + 2, p + 3, (n + p) // 2, n - 2, n - 1) if p + 2 <= c <= n - 1))
                if 'ncp' in case:
                    counts = [case['ncp']]
                for m in counts:
                    rc = dict(base, degree=p, centripetal=cen, op='approx', ncp=m)
                    fa = dict(feats, ncp=m, spans=m - p)
                    ctx.extra['fits'] += 1
                    try:
                        crv = fitting.approximate_curve([list(q) for q in pts], p, ctrlpts_size=m, **_cen_kw(case, cen))
                    except Exception as e:
                        ctx.check('C11.approx.curve.returns', False, rc, fa, 'a curve', repr(e))
                        continue
                    ctx.check('C11.approx.curve.returns', True, rc, fa)
                    ctx.check('C11.approx.curve.degree_and_size', crv.degree == p and crv.ctrlpts_size == m, rc, fa,
                              [p, m], [crv.degree, crv.ctrlpts_size])
                    d = R.def_from_obj(crv)
                    if len(d['P']) != m or d['degrees'][0] != p:
                        continue
                    U = d['kvs'][0]
                    rows = [basis_row(p, U, u) for u in ubf]
                    vals = [curve_point(d, N, s) for s, N in rows]
                    ctx.close('C11.approx.curve.end_points', [vals[0], vals[-1]], [pts[0], pts[-1]], TOL, scale, rc, fa)
                    # gradient of sum |Q_k - C(u_k)|^2 w.r.t. interior control point i: -2 sum_k N_i(u_k) (Q_k - C(u_k))
                    grad = [[F(0)] * dim for _ in range(m)]
                    for kk, (s, N) in enumerate(rows):
                        r = [vals[kk][t] - F(pts[kk][t]) for t in range(dim)]
                        for j in range(p + 1):
                            if N[j] != 0:
                                g = grad[s - p + j]
                                for t in range(dim):
                                    g[t] += 2 * N[j] * r[t]
                    ctx.close('C11.approx.curve.normal_equations', [[float(x) for x in g] for g in grad[1:-1]],
                              [[0.0] * dim for _ in range(m - 2)], TOL, scale, rc, fa)
                    ctx.outcome('a%d%d%d' % (p, cen, m) + ','.join('%.5g' % float(c) for c in d['P'][1]))


def _curve_values(d, ubf):
    p = d['degrees'][0]
    U = d['kvs'][0]
    out = []
    for u in ubf:
        s, N = basis_row(p, U, u)
        out.append([float(x) for x in curve_point(d, N, s)])
    return out


# ----------------------------------------------------------------------------------------
# surfaces
# ----------------------------------------------------------------------------------------

def _surface(case, ctx):
    from geomdl import fitting
    su, sv = case['su'], case['sv']
    pts = surface_points(su, sv, case['skew'], case['heights'])
    scale = max(1.0, max(abs(c) for p in pts for c in p))
    flat = len(set(p[2] for p in pts)) == 1
    ctx.state(dict(k='s', su=su, sv=sv, skew=case['skew'], h=case['heights']), nontrivial=not flat)
    base = dict(kind='surf', su=su, sv=sv, skew=case['skew'], heights=case['heights'])
    only_op = case.get('op')
    dus = [case['degree_u']] if 'degree_u' in case else list(range(1, min(3, su - 1) + 1))
    dvs = [case['degree_v']] if 'degree_v' in case else list(range(1, min(3, sv - 1) + 1))
    cens = [bool(case['centripetal'])] if 'centripetal' in case else [False, True]
    coded = isinstance(case['heights'], str)
    for cen in cens:
        uk, vl = surface_params(pts, su, sv, cen)
        ukf, vlf = [F(x) for x in uk], [F(x) for x in vl]
        for pu, pv in itertools.product(dus, dvs):
            feats = dict(shape='surface', size_u=su, size_v=sv, degree_u=pu, degree_v=pv, centripetal=cen,
                         skew=case['skew'], flat=flat, square=(su == sv), heights='coded' if coded else 'binary')
            if only_op in (None, 'interp'):
                rc = dict(base, degree_u=pu, degree_v=pv, centripetal=cen, op='interp')
                ctx.extra['fits'] += 1
                try:
                    srf = fitting.interpolate_surface([list(q) for q in pts], su, sv, pu, pv, **_cen_kw(case, cen))
                except Exception as e:
                    ctx.check('C11.interp.surface.returns', False, rc, feats, 'a surface', repr(e))
                    srf = None
                if srf is not None:
                    ctx.check('C11.interp.surface.returns', True, rc, feats)
                    ctx.check('C11.interp.surface.degree', [srf.degree_u, srf.degree_v] == [pu, pv], rc, feats, [pu, pv],
                              [srf.degree_u, srf.degree_v])
                    d = R.def_from_obj(srf)
                    if list(d['degrees']) == [pu, pv]:
                        bu = [basis_row(pu, d['kvs'][0], u) for u in ukf]
                        bv = [basis_row(pv, d['kvs'][1], v) for v in vlf]
                        got = []
                        for i in range(su):
                            for j in range(sv):
                                got.append([float(x) for x in surface_point(d, bu[i][0], bu[i][1], bv[j][0], bv[j][1])])
                        ctx.close('C11.interp.surface.passes_through', got, pts, TOL, scale, rc, feats)
                        ctx.outcome('s%d%d%d' % (pu, pv, cen) + ','.join('%.5g' % float(c) for c in d['P'][len(d['P']) // 2]))
            if only_op in (None, 'approx'):
                cus = [case['ncp_u']] if 'ncp_u' in case else list(range(pu + 2, su))
                cvs = [case['ncp_v']] if 'ncp_v' in case else list(range(pv + 2, sv))
                if su > 8 and 'ncp_u' not in case:
                    cus = sorted(set([pu + 2, (su + pu) // 2, su - 1]))
                if sv > 8 and 'ncp_v' not in case:
                    cvs = sorted(set([pv + 2, (sv + pv) // 2, sv - 1]))
                for mu, mv in itertools.product(cus, cvs):
                    rc = dict(base, degree_u=pu, degree_v=pv, centripetal=cen, op='approx', ncp_u=mu, ncp_v=mv)
                    fa = dict(feats, ncp_u=mu, ncp_v=mv)
                    ctx.extra['fits'] += 1
                    try:
                        srf = fitting.approximate_surface([list(q) for q in pts], su, sv, pu, pv, **dict(_cen_kw(case, cen),
                                                          ctrlpts_size_u=mu, ctrlpts_size_v=mv))
                    except Exception as e:
                        ctx.check('C11.approx.surface.returns', False, rc, fa, 'a surface', repr(e))
                        continue
                    ctx.check('C11.approx.surface.returns', True, rc, fa)
                    obs = [srf.degree_u, srf.degree_v, srf.ctrlpts_size_u, srf.ctrlpts_size_v]
                    if not ctx.check('C11.approx.surface.degree_and_size', obs == [pu, pv, mu, mv], rc, fa,
                                     [pu, pv, mu, mv], obs):
                        continue
                    d = R.def_from_obj(srf)
                    ends_u = [basis_row(pu, d['kvs'][0], u) for u in (F(0), F(1))]
                    ends_v = [basis_row(pv, d['kvs'][1], v) for v in (F(0), F(1))]
                    got, exp = [], []
                    for a, i in ((0, 0), (1, su - 1)):
                        for b, j in ((0, 0), (1, sv - 1)):
                            got.append([float(x) for x in surface_point(d, ends_u[a][0], ends_u[a][1],
                                                                         ends_v[b][0], ends_v[b][1])])
                            exp.append(pts[j + sv * i])
                    ctx.close('C11.approx.surface.corner_points', got, exp, TOL, scale, rc, fa)

"""C15 - tessellation is a valid triangulation lying on the surface (explorer E1).

Every case builds real surfaces, runs a real tessellator (through Surface.tessellate, SurfaceContainer.tessellate,
the tessellator classes directly, or an exporter) and judges the produced vertices / faces with exact planar
arithmetic (Fractions) in the parameter plane and the exact reference model on the surface.
"""
import itertools
import os
import shutil
import struct
import tempfile
from fractions import Fraction as F

from .. import alphabet as A
from .. import refmodel as R
from .. import shapes as S

PROPERTY = "C15"
VIA_HISTORY_EVERY = 9      # every k-th shape case is also run on an object that reached its definition through edits
EXPLORERS = ['E1']
RULE = ("E1: 3-D surfaces (rational and not, pairwise different net sizes, unit and non-unit parametric domains) x sample "
        "sizes (nu,nv) x every vertex spacing dividing nu-1 and nv-1 x {TriangularTessellate via Surface.tessellate, "
        "QuadTessellate (direct, and set as surface tessellator), TrimTessellate with one closed trim: 6-7 dyadic polygons "
        "(axis-aligned, slanted, cw/ccw, touching the border) as degree-1 spline and as freeform, one closed quadratic spline, sense absent/0/1}; "
        "containers of 1..3 surfaces (tessellate, vertices, faces; exports before/after the container was tessellated); "
        "exporters obj/off/stl-ascii/stl-binary, file and _str forms; non-trivial = mesh with at least 2 cells per direction "
        "or a trim")
ASSUMPTIONS = [
    "num_procs > 1 (multi-process container tessellation) is not exercised here (checked by C17)",
    "stored vertex parameters that overshoot the domain by <= 1e-12 (u += u_jump accumulates rounding) are clamped before the "
    "model is evaluated; grid lines are compared with tolerance 1e-9 in normalised parameters",
    "a sampling cell is one cell of the spaced grid ((nu-1)/s x (nv-1)/s cells); 'tiles exactly once' is decided per cell: the "
    "triangles meeting the open cell lie in it, are positively oriented, pairwise interior-disjoint (exact separating-axis "
    "test) and their areas add up to the cell area",
    "trims: a cell is 'far' if the closed box made of the cell and its 8 neighbours does not meet the exact trim boundary "
    "(quadratic spline: exact 256-segment polyline of the model curve, box enlarged by 1/8 cell); far cells must be fully kept "
    "or fully dropped according to the exact winding number of the cell centre and the sense; all other cells are free",
    "degree-1 spline trims are sampled so that the samples contain the polygon corners (sample size 8*segments+1)",
    "the sample size an exporter / container gives to a contained surface is read back from the surface (the mapping "
    "container.sample_size -> surface.sample_size is not part of this property)",
    "STL facet normal: direction only (right-hand rule of the facet's own vertices); binary STL compared in float32 precision",
]
TOL_POS = 1e-9
EPS = F(1, 10 ** 9)


def bounds(tier):
    return dict(
        quick=dict(surfaces=6, sample_sizes='{2..6}^2', spacings='all divisors of gcd(nu-1,nv-1)', trims='6 polygons x {spline,freeform} + qspline, '
                   'sense {absent,0,1}, 5 sample-size pairs, spacing 1 (and 2 where it divides)', containers='1..3 surfaces',
                   exports='obj, off, stl ascii, stl binary (file and _str)'),
        thorough=dict(surfaces=10, sample_sizes='{2..12}^2 + pairs from {2,3,5,25,40} with 25/40', spacings='all divisors of gcd(nu-1,nv-1)',
                      trims='same trims x 14 sample-size pairs incl. (25,25),(40,40),(25,40)', containers='1..3 surfaces, 4 size pairs',
                      exports='obj, off, stl ascii, stl binary (file and _str)'))[tier]


# ----------------------------------------------------------------------------------------
# alphabets
# ----------------------------------------------------------------------------------------

def _surfaces(tier):
    k = A.rep_kvs
    out = [
        ('bez12', A.shape_desc([k(1, 1)[0], k(2, 1)[0]], [1, 2], False, 3, 'coded')),                       # 2 x 3
        ('nurbs21', A.shape_desc([k(2, 1)[1], k(1, 1)[0]], [2, 1], True, 3, 'coded', 'coded')),             # 4 x 2
        ('nurbs23', A.shape_desc([k(2, 1)[2], k(3, 1)[1]], [2, 3], True, 3, 'seeded', 'spike')),            # 4 x 5
        ('bsp32', A.shape_desc([k(3, 1)[1], k(2, 1)[0]], [3, 2], False, 3, 'seeded')),                      # 5 x 3
        # non-unit parametric domain [1,3] x [0,2] (knot vectors are kept as given)
        ('dom21', A.shape_desc([A.affine_kv(k(2, 1)[1], 1.0, 2.0), A.affine_kv(k(1, 1)[0], 0.0, 2.0)], [2, 1], False, 3, 'coded',
                               normalize_kv=False)),
        # the same knot vectors normalised by the library (unit domain again)
        ('norm21', A.shape_desc([A.affine_kv(k(2, 1)[1], 1.0, 2.0), A.affine_kv(k(1, 1)[0], 0.0, 2.0)], [2, 1], True, 3, 'coded', 'coded')),
    ]
    # data variety: a model in units of 1e-6, one far from the origin, one with a collapsed edge (row u = 0 is one point:
    # the triangles along it are degenerate) - all facets still have to be written
    pole = A.shape_desc([k(2, 1)[1], k(1, 1)[1]], [2, 1], True, 3, 'coded', 'coded')                      # 4 x 3
    pts = A.make_net(pole['sizes'], 3, 'coded')
    pole['points'] = [pts[0] if n < pole['sizes'][1] else p for n, p in enumerate(pts)]
    out += [('tiny21', A.shape_desc([k(2, 1)[1], k(1, 1)[0]], [2, 1], True, 3, 'tiny', 'coded')),
            ('far32', A.shape_desc([k(3, 1)[1], k(2, 1)[0]], [3, 2], False, 3, 'large')),
            ('pole21', pole)]
    if tier == 'thorough':
        out += [
            ('bil11', A.shape_desc([k(1, 1)[0], k(1, 1)[1]], [1, 1], False, 3, 'coded')),                   # 2 x 3
            ('nurbs33', A.shape_desc([k(3, 1)[0], k(3, 1)[2]], [3, 3], True, 3, 'coded', 'seeded')),        # 4 x 5
            ('bsp22', A.shape_desc([k(2, 1)[3], k(2, 1)[1]], [2, 2], False, 3, 'coded')),                   # 5 x 4, double knot
            ('dom12', A.shape_desc([A.affine_kv(k(1, 1)[1], -1.0, 4.0), A.affine_kv(k(2, 1)[0], 2.0, 0.5)], [1, 2], True, 3, 'coded', 'coded',
                                   normalize_kv=False)),
        ]
    return out


def _divisors(nu, nv):
    return [s for s in range(1, min(nu, nv)) if (nu - 1) % s == 0 and (nv - 1) % s == 0]


def _size_pairs(tier):
    if tier == 'quick':
        # + sample sizes beyond the small ones: more than 12 per direction, more than 256 points in total
        return [(a, b) for a in range(2, 7) for b in range(2, 7)] + [(17, 16), (3, 25), (40, 2), (13, 9)]
    base = [(a, b) for a in range(2, 13) for b in range(2, 13)]
    big = [(25, 25), (40, 40), (25, 40), (40, 25), (2, 40), (40, 3), (5, 25), (25, 3), (25, 2), (3, 40), (40, 5)]
    return base + big


POLYS = dict(
    SQ=[[0.25, 0.25], [0.75, 0.25], [0.75, 0.75], [0.25, 0.75]],
    RECT=[[0.125, 0.25], [0.625, 0.25], [0.625, 0.875], [0.125, 0.875]],
    TRI=[[0.125, 0.125], [0.875, 0.25], [0.5, 0.875]],
    DIAMOND=[[0.5, 0.125], [0.875, 0.5], [0.5, 0.875], [0.125, 0.5]],
    TRI_CW=[[0.125, 0.125], [0.5, 0.875], [0.875, 0.25]],
    EDGE=[[0.0, 0.25], [0.5, 0.25], [0.5, 0.75], [0.0, 0.75]],          # one side on the border u = 0
    CORNER=[[0.0, 0.0], [0.5, 0.0], [0.5, 0.5], [0.0, 0.5]],            # two sides on the border
    # trims that run past the end of the domain (u = 1, v = 1): intersection vertices land exactly on the domain end
    NOTCH_U1=[[0.75, 0.25], [1.125, 0.25], [1.125, 0.75], [0.75, 0.75]],
    CORNER11=[[0.5, 0.5], [1.25, 0.5], [1.25, 1.25], [0.5, 1.25]],
)
QSPLINE = dict(degree=2, kv=[0.0, 0.0, 0.0, 0.25, 0.25, 0.5, 0.5, 0.75, 0.75, 1.0, 1.0, 1.0],
               pts=[[0.5, 0.1875], [0.8125, 0.1875], [0.8125, 0.5], [0.8125, 0.8125], [0.5, 0.8125], [0.1875, 0.8125], [0.1875, 0.5],
                    [0.1875, 0.1875], [0.5, 0.1875]])


def _trim_specs(tier):
    out = []
    for name in ('SQ', 'RECT', 'TRI', 'DIAMOND', 'TRI_CW', 'EDGE', 'NOTCH_U1', 'CORNER11') + (('CORNER',) if tier == 'thorough' else ()):
        for kind in ('spline', 'freeform'):
            for sense in (None, 0, 1):
                out.append(dict(kind=kind, poly=name, sense=sense))
    for sense in (None, 0, 1):
        out.append(dict(kind='qspline', poly='QSPLINE', sense=sense))
    return out


TRIM_SIZES_Q = [(9, 9), (10, 7), (7, 11), (12, 12), (5, 5), (17, 17), (13, 20)]
TRIM_SIZES_T = TRIM_SIZES_Q + [(6, 6), (8, 8), (11, 11), (12, 9), (9, 12), (2, 9), (9, 2), (25, 25), (40, 40), (25, 40), (7, 37)]
EXPORT_FORMATS = ['obj', 'off', 'stl_ascii', 'stl_binary']


def gen_cases(tier, seed):
    q = tier == 'quick'
    cases = []
    surfs = _surfaces(tier)
    pairs = _size_pairs(tier)
    # ---- triangular tessellation through Surface.tessellate
    for name, d in surfs:
        for nu, nv in pairs:
            if not q and max(nu, nv) > 12 and name not in ('nurbs21', 'bsp32', 'dom21'):
                continue
            for s in _divisors(nu, nv):
                cases.append(dict(kind='tri', surf=name, shape=d, n=[nu, nv], spacing=s))
    cases.append(dict(kind='session', name='convergence', n=[0, 0]))
    # ---- quads: tessellator used directly (as the library itself does) and set as the surface tessellator
    for name, d in surfs:
        for nu, nv in pairs:
            if max(nu, nv) > 12 and name != 'nurbs21':
                continue
            cases.append(dict(kind='quad', surf=name, shape=d, n=[nu, nv]))
    # ---- exports of single surfaces
    exp_surfs = [sd for sd in surfs if sd[0] in ('nurbs21', 'bsp32', 'dom21', 'tiny21', 'far32', 'pole21')]
    exp_pairs = [(2, 2), (3, 4), (5, 3), (4, 4), (5, 5), (6, 5)] if q else \
        [(2, 2), (3, 4), (5, 3), (4, 4), (5, 5), (6, 5), (7, 7), (9, 5), (10, 4), (12, 12), (7, 4), (25, 40)]
    for name, d in exp_surfs:
        for nu, nv in exp_pairs:
            for s in _divisors(nu, nv):
                for ud in (True, False):
                    cases.append(dict(kind='export', surf=name, shape=d, n=[nu, nv], spacing=s, update_delta=ud, formats=EXPORT_FORMATS))
    # ---- trimmed surfaces
    tsurfs = [sd for sd in surfs if sd[0] in (('nurbs21', 'bsp32') if q else ('nurbs21', 'bsp32', 'nurbs33', 'bil11'))]
    for name, d in tsurfs:
        for spec in _trim_specs(tier):
            for nu, nv in (TRIM_SIZES_Q if q else TRIM_SIZES_T):
                if max(nu, nv) > 12 and (name != 'nurbs21' or spec['kind'] == 'freeform' and spec['poly'] not in ('SQ', 'TRI')):
                    continue
                for s in _divisors(nu, nv):
                    if s > 2 or (nu - 1) // s < 2 and (nv - 1) // s < 2:
                        continue
                    cases.append(dict(kind='trim', surf=name, shape=d, n=[nu, nv], spacing=s, trim=spec))
    # ---- containers of 1..3 surfaces
    pool = [sd for sd in surfs if sd[0] in ('nurbs21', 'bsp32', 'bez12')]
    cpairs = [(4, 5), (6, 4)] if q else [(4, 5), (6, 4), (3, 3), (8, 6)]
    trim_a = dict(kind='spline', poly='RECT', sense=0)
    trim_b = dict(kind='freeform', poly='TRI', sense=1)
    for n in (1, 2, 3):
        for nu, nv in cpairs:
            for tess in ('tri', 'trim'):
                for pretess in (True, False):
                    for ud in (True, False):
                        for s in (1, 2):
                            if tess == 'trim' and (s > 1 or not pretess):
                                continue
                            members = [dict(surf=pool[k][0], shape=pool[k][1],
                                            trim=([trim_a, trim_b, trim_a][k] if tess == 'trim' else None)) for k in range(n)]
                            cases.append(dict(kind='container', members=members, n=[nu, nv], spacing=s, tess=tess, pretess=pretess,
                                              update_delta=ud, formats=EXPORT_FORMATS))
                            if n >= 2 and pretess and ud and tess == 'tri':
                                cases.append(dict(kind='container', members=members, n=[nu, nv], spacing=s, tess=tess, pretess=True,
                                                  update_delta=ud, formats=EXPORT_FORMATS[:1], retess=True))
                            if n >= 2 and pretess and ud and s == 1:
                                # the same, with the tessellation component assigned through the container
                                cases.append(dict(kind='container', members=members, n=[nu, nv], spacing=s, tess=tess, pretess=True,
                                                  update_delta=ud, formats=EXPORT_FORMATS[:1], tess_via_container=True))
    return cases


def case_weight(c):
    if c.get('kind') == 'session':
        return 40000
    nu, nv = c['n']
    w = nu * nv
    if c['kind'] == 'trim':
        w *= 12
    if c['kind'] in ('export', 'container'):
        w *= 10 * len(c.get('members', [1]))
    return w


# ----------------------------------------------------------------------------------------
# exact planar helpers
# ----------------------------------------------------------------------------------------

def _fr2(p):
    return (F(p[0]), F(p[1]))


def _interiors_intersect(P, Q):
    """P, Q: convex polygons with positive area, counter-clockwise, exact coordinates.  Interiors are disjoint iff an
    edge line of one of them has the whole other polygon on its outer (or on-line) side."""
    for poly, other in ((P, Q), (Q, P)):
        n = len(poly)
        for i in range(n):
            a, b = poly[i], poly[(i + 1) % n]
            if all(R.orient(a, b, r) <= 0 for r in other):
                return False
    return True


def _seg_meets_box(a, b, lo, hi):
    """closed segment ab meets closed box [lo.x,hi.x] x [lo.y,hi.y] (exact)"""
    def inside(p):
        return lo[0] <= p[0] <= hi[0] and lo[1] <= p[1] <= hi[1]
    if inside(a) or inside(b):
        return True
    if max(a[0], b[0]) < lo[0] or min(a[0], b[0]) > hi[0] or max(a[1], b[1]) < lo[1] or min(a[1], b[1]) > hi[1]:
        return False
    c = [(lo[0], lo[1]), (hi[0], lo[1]), (hi[0], hi[1]), (lo[0], hi[1])]
    return any(R.segments_properly_or_improperly_intersect(a, b, c[i], c[(i + 1) % 4]) for i in range(4))


# ----------------------------------------------------------------------------------------
# building
# ----------------------------------------------------------------------------------------

def _trim_polygon(spec):
    """exact closed boundary (list of Fraction points, first != last) and the extra margin in cells"""
    if spec['kind'] == 'qspline':
        d = R.shape_def([QSPLINE['degree']], [QSPLINE['kv']], [len(QSPLINE['pts'])], QSPLINE['pts'], False)
        pts = [R.eval_point(d, (F(i, 256),)) for i in range(256)]
        return [(p[0], p[1]) for p in pts], F(1, 8)
    return [_fr2(p) for p in POLYS[spec['poly']]], F(0)


def _build_trim(spec):
    from geomdl import BSpline, freeform
    if spec['kind'] == 'qspline':
        c = BSpline.Curve()
        c.degree = QSPLINE['degree']
        c.ctrlpts = [list(p) for p in QSPLINE['pts']]
        c.knotvector = list(QSPLINE['kv'])
        c.sample_size = 41
    else:
        ring = [list(p) for p in POLYS[spec['poly']]]
        ring.append(list(ring[0]))
        if spec['kind'] == 'spline':
            m = len(ring) - 1
            c = BSpline.Curve()
            c.degree = 1
            c.ctrlpts = ring
            c.knotvector = [0.0] + [i / float(m) for i in range(m + 1)] + [1.0]
            c.sample_size = 8 * m + 1
        else:
            c = freeform.Freeform()
            c.evaluate(points=ring)
    if spec['sense'] is not None:
        c.opt = ['reversed', spec['sense']]
    return c


def _build_surface(desc, seed, n=None, tess='tri', trim=None):
    from geomdl import tessellate
    s = S.build(desc, seed)
    if n is not None:
        s.sample_size_u, s.sample_size_v = int(n[0]), int(n[1])
    if tess == 'trim':
        s.tessellator = tessellate.TrimTessellate()
        s.trims = [_build_trim(trim)]
    return s


class _Model(object):
    def __init__(self, surf):
        self.d = R.def_from_obj(surf)
        self.dom = [R.domain(p, U) for p, U in zip(self.d['degrees'], self.d['kvs'])]
        self.unit = all(lo == 0 and hi == 1 for lo, hi in self.dom)
        self.cache = {}
        P = surf.ctrlpts
        self.scale = max(1.0, max(abs(c) for p in P for c in p))

    def point(self, uv):
        key = (uv[0], uv[1])
        if key not in self.cache:
            self.cache[key] = R.eval_point(self.d, key)
        return self.cache[key]

    def clamp(self, uv):
        """stored parameters -> exact parameters inside the domain (None if further than 1e-12 outside)"""
        out = []
        for x, (lo, hi) in zip(uv, self.dom):
            x = F(x)
            tol = F(1, 10 ** 12) * max(1, hi - lo)
            if x < lo - tol or x > hi + tol:
                return None
            out.append(min(max(x, lo), hi))
        return tuple(out)

    def normalised(self, uv):
        return tuple((x - lo) / (hi - lo) for x, (lo, hi) in zip(uv, self.dom))


def _feats(case, model=None, **kw):
    d = case.get('shape') or case['members'][0]['shape']
    nu, nv = case['n']
    f = dict(kind=case['kind'], surf=case.get('surf'), rational=d['rational'], sizes=list(d['sizes']), degrees=list(d['degrees']),
             nu=nu, nv=nv, spacing=case.get('spacing', 1), domain_unit=bool(d.get('normalize_kv', True)),
             tessellator={'tri': 'triangular', 'export': 'triangular', 'quad': 'quad', 'trim': 'trim'}.get(case['kind'], case.get('tess')))
    t = case.get('trim')
    if t:
        f.update(trim_kind=t['kind'], poly=t['poly'], sense=t['sense'])
    if case['kind'] == 'container':
        f.update(n_surfaces=len(case['members']), pretess=case['pretess'], update_delta=case['update_delta'],
                 tessellator={'tri': 'triangular', 'trim': 'trim'}[case['tess']])
    if case['kind'] == 'export':
        f.update(update_delta=case['update_delta'], n_surfaces=1)
    f.update(kw)
    return f


# ----------------------------------------------------------------------------------------
# the mesh oracle
# ----------------------------------------------------------------------------------------

def _classify_cells(mu, mv, gu, gv, trim_spec):
    """(a,b) -> 'keep' | 'drop' | 'free' for the (mu-1) x (mv-1) cells of the spaced grid (normalised parameters)"""
    cells = {}
    if trim_spec is None:
        for a in range(mu - 1):
            for b in range(mv - 1):
                cells[(a, b)] = 'keep'
        return cells
    poly, margin = _trim_polygon(trim_spec)
    sense = trim_spec['sense'] or 0
    n = len(poly)
    for a in range(mu - 1):
        for b in range(mv - 1):
            ulo, uhi = _ring(gu, a, mu, margin)
            vlo, vhi = _ring(gv, b, mv, margin)
            lo, hi = (ulo, vlo), (uhi, vhi)
            near = any(_seg_meets_box(poly[i], poly[(i + 1) % n], lo, hi) for i in range(n))
            if near:
                cells[(a, b)] = 'free'
                continue
            centre = ((gu[a] + gu[a + 1]) / 2, (gv[b] + gv[b + 1]) / 2)
            inside = R.winding_number(centre, poly) != 0
            assert inside == R.point_in_polygon_crossing(centre, poly)
            dropped = inside if sense == 0 else not inside
            cells[(a, b)] = 'drop' if dropped else 'keep'
    return cells


def _ring(g, a, m, margin):
    """the parameter interval covered by cell a and its two neighbours (one cell beyond the domain at the border)"""
    d = g[a + 1] - g[a]
    lo = g[a - 1] if a >= 1 else g[0] - d
    hi = g[a + 2] if a + 2 <= m - 1 else g[m - 1] + d
    # open interval: a boundary that only touches the ring is a full cell away from the cell itself
    return lo - margin * d + EPS, hi + margin * d - EPS


def _judge_mesh(ctx, name, verts, faces, model, nu, nv, s, rc, feats, trim_spec=None, offset=0):
    """verts / faces: the library's Vertex / Triangle objects of ONE surface; offset: id of its first vertex"""
    N = len(verts)
    pre = 'C15.%s.' % name
    ids = [v.id for v in verts]
    ctx.check(pre + 'vertex_ids', ids == list(range(offset, offset + N)), rc, feats, 'ids %d..%d' % (offset, offset + N - 1),
              ids if len(ids) < 40 else ids[:40])
    pos = {}
    for i, v in enumerate(verts):
        pos[id(v)] = i
    # ---- faces reference existing vertices (ids and objects)
    bad = []
    tris = []
    for f in faces:
        data = list(f.data)
        vs = list(f.vertices)
        ok = len(data) == 3 and len(vs) == 3 and all(isinstance(x, int) and offset <= x < offset + N for x in data) \
            and all(id(o) in pos for o in vs) and all(verts[x - offset] is o for x, o in zip(data, vs))
        if not ok:
            bad.append(data)
        else:
            tris.append(tuple(x - offset for x in data))
    if not ctx.check(pre + 'face_refs', not bad, rc, feats, 'every face lists 3 ids of existing vertices and holds those vertex objects', bad[:5]):
        return
    # ---- parameters inside the domain, positions on the surface
    uvs = []
    outside = []
    for v in verts:
        c = model.clamp(v.uv)
        if c is None:
            outside.append([v.id, list(v.uv)])
        uvs.append(c)
    if not ctx.check(pre + 'uv_in_domain', not outside, rc, feats, [[float(lo), float(hi)] for lo, hi in model.dom], outside[:6],
                     'stored vertex parameters lie in the parametric domain of the surface'):
        # diagnosis only: if the stored values are parameters normalised to the unit square, go on judging the mesh
        # under that reading (the violation above stands: position != surface(stored parameters))
        tol = F(1, 10 ** 12)
        unit = [[F(x) for x in v.uv] for v in verts]
        if model.unit or not all(-tol <= x <= 1 + tol for p in unit for x in p):
            return
        feats = dict(feats, uv_reading='normalised')
        uvs = [tuple(lo + (hi - lo) * min(max(x, F(0)), F(1)) for x, (lo, hi) in zip(p, model.dom)) for p in unit]
    got = [list(v.data) for v in verts]
    exp = [model.point(c) for c in uvs]
    ctx.close(pre + 'vertex_on_surface', got, exp, TOL_POS, model.scale, rc, feats)
    # normalised exact parameters (unit square)
    T = [model.normalised(c) for c in uvs]
    mu, mv = (nu - 1) // s + 1, (nv - 1) // s + 1
    gu = [F(a * s, nu - 1) for a in range(mu)]
    gv = [F(b * s, nv - 1) for b in range(mv)]
    if trim_spec is None:
        ctx.check(pre + 'vertex_count', N == mu * mv, rc, feats, mu * mv, N)
        ctx.check(pre + 'triangle_count', len(tris) == 2 * (mu - 1) * (mv - 1), rc, feats, 2 * (mu - 1) * (mv - 1), len(tris))
        # the vertices are the points of the spaced sampling grid
        want = sorted((a, b) for a in gu for b in gv)
        have = sorted(T)
        ok = len(have) == len(want) and all(abs(h[0] - w[0]) <= EPS and abs(h[1] - w[1]) <= EPS for h, w in zip(have, want))
        ctx.check(pre + 'vertex_grid', ok, rc, feats, 'grid %d x %d, step %d samples' % (mu, mv, s), [[float(x) for x in p] for p in have[:8]])
    # ---- orientation, areas
    area2 = [R.orient(T[a], T[b], T[c]) for a, b, c in tris]
    if trim_spec is None:
        neg = [list(t) for t, ar in zip(tris, area2) if ar <= 0]
        ctx.check(pre + 'orientation', not neg, rc, feats, 'every triangle counter-clockwise in (u,v)', neg[:5])
        tot = sum(area2, F(0)) / 2
        ctx.check(pre + 'area_sum', abs(tot - 1) <= F(1, 10 ** 12), rc, feats, 1.0, float(tot), 'triangle areas add up to the parametric rectangle')
        # ---- edges: interior edges in two triangles (opposite directions), boundary edges in one, Euler characteristic of a disc
        directed = {}
        for t in tris:
            for k in range(3):
                e = (t[k], t[(k + 1) % 3])
                directed[e] = directed.get(e, 0) + 1
        und = {}
        for (a, b), c in directed.items():
            key = (min(a, b), max(a, b))
            und[key] = und.get(key, 0) + c

        def on_border(i, j):
            p, r = T[i], T[j]
            return any(abs(p[ax] - val) <= EPS and abs(r[ax] - val) <= EPS for ax in (0, 1) for val in (0, 1))
        bad_e = [list(e) for e, c in und.items() if c != (1 if on_border(*e) else 2)]
        twice = [list(e) for e, c in directed.items() if c > 1]
        ctx.check(pre + 'edge_manifold', not bad_e and not twice, rc, feats,
                  'interior edges in exactly two triangles with opposite directions, border edges in one', dict(count=bad_e[:5], same_direction=twice[:5]))
        used = set(i for t in tris for i in t)
        chi = len(used) - len(und) + len(tris)
        ctx.check(pre + 'euler', chi == 1 and len(used) == N, rc, feats, dict(V_E_F=1, used_vertices=N), dict(V_E_F=chi, used_vertices=len(used)))
    # ---- per-cell cover
    cells = _classify_cells(mu, mv, gu, gv, trim_spec)
    meet = {}
    for ti, (t, ar) in enumerate(zip(tris, area2)):
        if ar == 0:
            continue                      # no interior
        P = [T[i] for i in t]
        if ar < 0:
            P = [P[0], P[2], P[1]]
        a0 = _locate(gu, min(p[0] for p in P) + EPS)
        a1 = _locate(gu, max(p[0] for p in P) - EPS)
        b0 = _locate(gv, min(p[1] for p in P) + EPS)
        b1 = _locate(gv, max(p[1] for p in P) - EPS)
        for a in range(a0, a1 + 1):
            for b in range(b0, b1 + 1):
                if cells.get((a, b), 'free') == 'free':
                    continue
                box = [(gu[a] + EPS, gv[b] + EPS), (gu[a + 1] - EPS, gv[b] + EPS), (gu[a + 1] - EPS, gv[b + 1] - EPS), (gu[a] + EPS, gv[b + 1] - EPS)]
                if (a0 == a1 and b0 == b1) or _interiors_intersect(P, box):
                    meet.setdefault((a, b), []).append((ti, P, ar))
    bad_keep, bad_drop = [], []
    n_keep = n_drop = 0
    for cell, cls in sorted(cells.items()):
        a, b = cell
        lst = meet.get(cell, [])
        if cls == 'drop':
            n_drop += 1
            if lst:
                bad_drop.append(dict(cell=list(cell), triangles=[list(tris[ti]) for ti, _, _ in lst][:4]))
            continue
        if cls != 'keep':
            continue
        n_keep += 1
        why = None
        cell_area = (gu[a + 1] - gu[a]) * (gv[b + 1] - gv[b])
        for ti, P, ar in lst:
            if ar < 0:
                why = 'clockwise triangle'
            if any(p[0] < gu[a] - EPS or p[0] > gu[a + 1] + EPS or p[1] < gv[b] - EPS or p[1] > gv[b + 1] + EPS for p in P):
                why = 'triangle sticks out of the cell'
        if why is None:
            tot = sum((ar for _, _, ar in lst), F(0)) / 2
            if abs(tot - cell_area) > EPS * cell_area:
                why = 'covered area %s of %s' % (float(tot), float(cell_area))
        if why is None:
            for (i1, P1, _), (i2, P2, _) in itertools.combinations(lst, 2):
                if _interiors_intersect(P1, P2):
                    why = 'triangles overlap'
        if why is not None:
            bad_keep.append(dict(cell=list(cell), why=why, triangles=[list(tris[ti]) for ti, _, _ in lst][:4]))
    ctx.check(pre + 'cells_kept_covered_once', not bad_keep, rc, dict(feats, kept_cells=n_keep),
              'every kept sampling cell is tiled exactly once by counter-clockwise triangles', bad_keep[:4])
    if trim_spec is not None:
        ctx.check(pre + 'cells_dropped_empty', not bad_drop, rc, dict(feats, dropped_cells=n_drop),
                  'no triangle meets a cell that lies at least one cell inside the trimmed region', bad_drop[:4])
        ctx.extra['trim_far_keep_cells'] += n_keep
        ctx.extra['trim_far_drop_cells'] += n_drop
        ctx.extra['trim_free_cells'] += len(cells) - n_keep - n_drop
    ctx.outcome((name, N, len(tris), n_keep, n_drop))


def _locate(g, x):
    """index a of the grid cell [g[a], g[a+1]] containing x (clamped)"""
    a = 0
    while a + 2 < len(g) and x >= g[a + 1]:
        a += 1
    return a


def _judge_quads(ctx, name, verts, quads, model, nu, nv, rc, feats, points=None):
    pre = 'C15.%s.' % name
    N = len(verts)
    ids = [v.id for v in verts]
    ctx.check(pre + 'vertex_ids', ids == list(range(N)), rc, feats, 'ids 0..%d' % (N - 1), ids[:40])
    ctx.check(pre + 'vertex_count', N == nu * nv, rc, feats, nu * nv, N)
    ctx.check(pre + 'quad_count', len(quads) == (nu - 1) * (nv - 1), rc, feats, (nu - 1) * (nv - 1), len(quads))
    bad = []
    Q = []
    for q in quads:
        data = list(q.data)
        vs = list(q.vertices)
        ok = len(data) == 4 and len(vs) == 4 and all(isinstance(x, int) and 0 <= x < N for x in data) and all(verts[x] is o for x, o in zip(data, vs))
        if ok:
            Q.append(data)
        else:
            bad.append(data)
    if not ctx.check(pre + 'face_refs', not bad, rc, feats, 'every quad lists 4 ids of existing vertices and holds those vertex objects', bad[:5]):
        return
    if N != nu * nv:
        return
    # vertex k is the sample (i, j) = divmod(k, nv): its position is the surface at the grid parameters
    (ulo, uhi), (vlo, vhi) = model.dom
    exp = [model.point((ulo + (uhi - ulo) * F(k // nv, nu - 1), vlo + (vhi - vlo) * F(k % nv, nv - 1))) for k in range(N)]
    ctx.close(pre + 'vertex_on_surface', [list(v.data) for v in verts], exp, TOL_POS, model.scale, rc, feats)
    # every quad is one index cell, consistently oriented; every cell exactly once
    seen = {}
    wrong = []
    for data in Q:
        ij = [divmod(k, nv) for k in data]
        a2 = sum(ij[k][0] * ij[(k + 1) % 4][1] - ij[(k + 1) % 4][0] * ij[k][1] for k in range(4))
        i0, j0 = min(p[0] for p in ij), min(p[1] for p in ij)
        if sorted(ij) != sorted([(i0, j0), (i0 + 1, j0), (i0, j0 + 1), (i0 + 1, j0 + 1)]) or a2 != 2:
            wrong.append(data)
        seen[(i0, j0)] = seen.get((i0, j0), 0) + 1
    ctx.check(pre + 'orientation_and_cells', not wrong, rc, feats, 'each quad = the 4 corners of one sampling cell, counter-clockwise in (u,v)', wrong[:5])
    full = all(seen.get((i, j), 0) == 1 for i in range(nu - 1) for j in range(nv - 1)) and len(seen) == (nu - 1) * (nv - 1)
    ctx.check(pre + 'cover_once', full, rc, feats, 'every sampling cell covered by exactly one quad', sorted(seen.items())[:8])
    und = {}
    for data in Q:
        for k in range(4):
            a, b = data[k], data[(k + 1) % 4]
            und[(min(a, b), max(a, b))] = und.get((min(a, b), max(a, b)), 0) + 1

    def border(e):
        (i1, j1), (i2, j2) = divmod(e[0], nv), divmod(e[1], nv)
        return (i1 == i2 and i1 in (0, nu - 1)) or (j1 == j2 and j1 in (0, nv - 1))
    bad_e = [list(e) for e, c in und.items() if c != (1 if border(e) else 2)]
    ctx.check(pre + 'edge_manifold', not bad_e, rc, feats, 'interior edges in two quads, border edges in one', bad_e[:5])
    ctx.check(pre + 'euler', N - len(und) + len(Q) == 1, rc, feats, 1, N - len(und) + len(Q))
    ctx.outcome((name, N, len(Q)))


# ----------------------------------------------------------------------------------------
# independent readers for the mesh exchange formats
# ----------------------------------------------------------------------------------------

def _parse_obj(text):
    v, f, other = [], [], 0
    for ln in text.split("\n"):
        tok = ln.split()
        if not tok or tok[0].startswith('#'):
            continue
        if tok[0] == 'v':
            v.append([float(x) for x in tok[1:]])
        elif tok[0] == 'f':
            f.append([int(x.split('/')[0]) for x in tok[1:]])
        else:
            other += 1
    return v, f, other


def _parse_off(text):
    lines = [ln.split() for ln in text.split("\n") if ln.strip() and not ln.startswith('#')]
    if not lines or lines[0] != ['OFF']:
        return None
    nv, nf = int(lines[1][0]), int(lines[1][1])
    v = [[float(x) for x in ln] for ln in lines[2:2 + nv]]
    f = []
    for ln in lines[2 + nv:]:
        f.append([int(x) for x in ln])
    return dict(nv=nv, nf=nf, ne=int(lines[1][2]), v=v, f=f)


def _parse_stl_ascii(text):
    lines = [ln.split() for ln in text.split("\n") if ln.strip()]
    if not lines or lines[0][0] != 'solid' or lines[-1][0] != 'endsolid':
        return None
    facets = []
    i = 1
    while i < len(lines) - 1:
        blk = lines[i:i + 7]
        ok = len(blk) == 7 and blk[0][:2] == ['facet', 'normal'] and blk[1] == ['outer', 'loop'] and all(b[0] == 'vertex' for b in blk[2:5]) \
            and blk[5] == ['endloop'] and blk[6] == ['endfacet']
        if not ok:
            return None
        facets.append(([float(x) for x in blk[0][2:5]], [[float(x) for x in b[1:4]] for b in blk[2:5]]))
        i += 7
    return facets


def _parse_stl_binary(blob):
    if not isinstance(blob, (bytes, bytearray)) or len(blob) < 84:
        return None
    n = struct.unpack('<I', blob[80:84])[0]
    facets = []
    for k in range(min(n, (len(blob) - 84) // 50)):
        rec = struct.unpack('<12fH', blob[84 + 50 * k:84 + 50 * (k + 1)])
        facets.append((list(rec[0:3]), [list(rec[3:6]), list(rec[6:9]), list(rec[9:12])]))
    return dict(count=n, length=len(blob), facets=facets)


def _cross(a, b):
    return [a[1] * b[2] - a[2] * b[1], a[2] * b[0] - a[0] * b[2], a[0] * b[1] - a[1] * b[0]]


def _normal_consistent(normal, tri, rel):
    """the stored normal points along (v1-v0) x (v2-v1) of the facet's own vertices (direction only)"""
    e1 = [tri[1][k] - tri[0][k] for k in range(3)]
    e2 = [tri[2][k] - tri[1][k] for k in range(3)]
    n = _cross(e1, e2)
    ln = sum(x * x for x in n) ** 0.5
    lm = sum(x * x for x in normal) ** 0.5
    l1 = sum(x * x for x in e1) ** 0.5
    l2 = sum(x * x for x in e2) ** 0.5
    if ln <= rel * max(l1 * l2, 1e-300):      # (nearly) degenerate facet: any normal, also a zero one
        return True
    if lm == 0.0:
        return False
    c = _cross(n, normal)
    lc = sum(x * x for x in c) ** 0.5
    dot = sum(x * y for x, y in zip(n, normal))
    return dot > 0 and lc <= rel * 10 * ln * lm + rel * l1 * l2 * lm


def _snapshot(surfaces):
    """per surface: vertex objects, coordinates, faces as positions in the surface's own vertex list"""
    out = []
    for srf in surfaces:
        verts = list(srf.tessellator.vertices)
        pos = {id(v): i for i, v in enumerate(verts)}
        faces = []
        for t in srf.tessellator.faces:
            faces.append([pos.get(id(o)) for o in t.vertices])
        out.append(dict(coords=[list(v.data) for v in verts], faces=faces, nu=srf.sample_size_u, nv=srf.sample_size_v))
    return out


def _judge_export(ctx, case, fmt, target, surfaces, tmp, rc, feats):
    from geomdl import exchange
    s = case['spacing']
    ud = case['update_delta']
    f = dict(feats, format=fmt)
    kw = dict(vertex_spacing=s, update_delta=ud)
    path = os.path.join(tmp, 'mesh.' + fmt)
    base = fmt.split('_')[0]
    binary = fmt == 'stl_binary'
    try:
        if base == 'stl':
            exchange.export_stl(target, path, binary=binary, **kw)
        else:
            getattr(exchange, 'export_' + base)(target, path, **kw)
    except Exception as e:
        ctx.check('C15.export.%s.runs' % fmt, False, rc, f, 'file written', repr(e))
        return
    ctx.check('C15.export.%s.runs' % fmt, True, rc, f)
    with open(path, 'rb' if binary else 'r') as fh:
        content = fh.read()
    snap = _snapshot(surfaces)
    if any(None in t for sn in snap for t in sn['faces']):
        ctx.check('C15.export.%s.mesh_faces_own_vertices' % fmt, False, rc, f, 'faces of a surface use its own vertices', None)
        return
    # expected mesh sizes for the sample size the exporter left on each surface (only when the spacing divides)
    for k, sn in enumerate(snap):
        if (sn['nu'] - 1) % s == 0 and (sn['nv'] - 1) % s == 0 and not case.get('trim') and case.get('tess', 'tri') == 'tri':
            mu, mv = (sn['nu'] - 1) // s + 1, (sn['nv'] - 1) // s + 1
            ctx.check('C15.export.%s.mesh_counts' % fmt, (len(sn['coords']), len(sn['faces'])) == (mu * mv, 2 * (mu - 1) * (mv - 1)), rc,
                      dict(f, index=k), [mu * mv, 2 * (mu - 1) * (mv - 1)], [len(sn['coords']), len(sn['faces'])])
    allv = [c for sn in snap for c in sn['coords']]
    offs = [0]
    for sn in snap:
        offs.append(offs[-1] + len(sn['coords']))
    nF = sum(len(sn['faces']) for sn in snap)
    if base in ('obj', 'off'):
        ibase = 1 if base == 'obj' else 0
        if base == 'obj':
            v, fc, other = _parse_obj(content)
            ok_hdr = other == 0
        else:
            doc = _parse_off(content)
            if not ctx.check('C15.export.off.header', doc is not None and doc['nv'] == len(allv) and doc['nf'] == nF and doc['ne'] == 0
                             and all(len(x) == 4 and x[0] == 3 for x in doc['f']), rc, f, ['OFF', len(allv), nF, 0],
                             None if doc is None else [doc['nv'], doc['nf'], doc['ne']]):
                return
            v, fc = doc['v'], [x[1:] for x in doc['f']]
        ctx.check('C15.export.%s.counts' % base, len(v) == len(allv) and len(fc) == nF, rc, f, [len(allv), nF], [len(v), len(fc)])
        ctx.check('C15.export.%s.coordinates' % base, v == allv, rc, f, allv[:4], v[:4], 'vertex lines equal the tessellation vertices, surface after surface')
        rng = [x for face in fc for x in face if not (ibase <= x < ibase + len(v))]
        ctx.check('C15.export.%s.indices_in_range' % base, not rng and all(len(face) == 3 for face in fc), rc, f,
                  'indices %d..%d' % (ibase, ibase + len(v) - 1), rng[:6])
        exp_faces = [[offs[k] + p + ibase for p in t] for k, sn in enumerate(snap) for t in sn['faces']]
        ctx.check('C15.export.%s.faces' % base, fc == exp_faces, rc, f, exp_faces[:4], fc[:4],
                  'face k of surface j lists (index base + vertices before surface j + position in surface j)')
    else:
        exp_tris = [[snap[k]['coords'][p] for p in t] for k in range(len(snap)) for t in snap[k]['faces']]
        if binary:
            doc = _parse_stl_binary(content)
            if not ctx.check('C15.export.stl_binary.length', doc is not None and doc['length'] == 84 + 50 * nF and doc['count'] == nF, rc, f,
                             dict(length=84 + 50 * nF, count=nF), None if doc is None else dict(length=doc['length'], count=doc['count'])):
                return
            facets = doc['facets']
            f32 = lambda x: struct.unpack('<f', struct.pack('<f', x))[0]
            exp_tris = [[[f32(c) for c in p] for p in t] for t in exp_tris]
            rel = 1e-5
        else:
            facets = _parse_stl_ascii(content)
            if not ctx.check('C15.export.stl_ascii.syntax', facets is not None, rc, f, 'solid / facet normal / outer loop / 3 vertex / endloop / endfacet / endsolid', content[:200]):
                return
            rel = 1e-9
        ctx.check('C15.export.%s.counts' % fmt, len(facets) == nF, rc, f, nF, len(facets))
        ctx.check('C15.export.%s.coordinates' % fmt, [t for _, t in facets] == exp_tris, rc, f, exp_tris[:2], [t for _, t in facets][:2])
        badn = [[n, t] for n, t in facets if not _normal_consistent(n, t, rel)]
        ctx.check('C15.export.%s.normals' % fmt, not badn, rc, f, 'facet normal along (v1-v0)x(v2-v1) of its own vertices', badn[:3])
    # ---- the _str form gives the same content
    fn = getattr(exchange, 'export_%s_str' % base, None)
    if fn is not None:
        try:
            txt = fn(target, binary=binary, **kw) if base == 'stl' else fn(target, **kw)
            ctx.check('C15.export.%s.str_equals_file' % fmt, txt == content, rc, f, 'same content', None if txt == content else repr(txt[:120]))
        except Exception as e:
            ctx.check('C15.export.%s.str_equals_file' % fmt, False, rc, f, 'same content', repr(e))


# ----------------------------------------------------------------------------------------
# cases
# ----------------------------------------------------------------------------------------

def _tessellate(ctx, obl, fn, rc, feats):
    try:
        fn()
    except Exception as e:
        ctx.check(obl, False, rc, feats, 'a tessellation', repr(e))
        return False
    return ctx.check(obl, True, rc, feats)


def _session_cases(name, tier):
    """long session: a convergence study - one surface tessellated with sample sizes 2..40 (39 distinct sizes, every admissible
    spacing for a few of them), triangles and quads"""
    sd = dict(_surfaces(tier))
    out = []
    for n in range(2, 41):
        out.append(dict(kind='tri', surf='nurbs21', shape=sd['nurbs21'], n=[n, 2 + n % 5], spacing=1))
        if n % 6 == 1:
            for s_ in _divisors(n, n)[1:3]:
                out.append(dict(kind='tri', surf='bsp32', shape=sd['bsp32'], n=[n, n], spacing=s_))
        if n % 5 == 0:
            out.append(dict(kind='quad', surf='nurbs21', shape=sd['nurbs21'], n=[n, 3]))
    return out


def run_case(case, ctx):
    if case.get('kind') == 'session':
        import sys
        from .. import core
        return core.run_session(sys.modules[__name__], ctx, case, _session_cases(case['name'], ctx.tier), 12)
    kind = case['kind']
    nu, nv = case['n']
    seed = ctx.seed
    if kind == 'tri':
        s = case['spacing']
        feats = _feats(case)
        surf = _build_surface(case['shape'], seed, (nu, nv))
        model = _Model(surf)
        ctx.state(dict(k=kind, s=case['surf'], n=[nu, nv], sp=s), nontrivial=(nu - 1) // s >= 2 and (nv - 1) // s >= 2)
        if not ctx.check('C15.tri.sample_size', (surf.sample_size_u, surf.sample_size_v) == (nu, nv), case, feats, [nu, nv],
                         [surf.sample_size_u, surf.sample_size_v]):
            return
        if not _tessellate(ctx, 'C15.tri.tessellates', lambda: surf.tessellate(vertex_spacing=s), case, feats):
            return
        _judge_mesh(ctx, 'tri', list(surf.vertices), list(surf.faces), model, nu, nv, s, case, feats)
        # the default spacing is 1; vertices / faces properties tessellate on demand
        if s == 1:
            surf2 = _build_surface(case['shape'], seed, (nu, nv))
            if _tessellate(ctx, 'C15.tri.tessellates', lambda: (surf2.vertices, surf2.faces), case, feats):
                same = [list(v.data) for v in surf2.vertices] == [list(v.data) for v in surf.vertices] and \
                    [list(f.data) for f in surf2.faces] == [list(f.data) for f in surf.faces]
                ctx.check('C15.tri.on_demand_equals_explicit', same, case, feats, 'same mesh', None)
        # the tessellator class used directly on a grid of points (parameters are normalised to [0,1] by definition)
        if model.unit:
            from geomdl import tessellate
            surf3 = _build_surface(case['shape'], seed, (nu, nv))
            tt = tessellate.TriangularTessellate()
            f3 = dict(feats, via='direct')
            if _tessellate(ctx, 'C15.tri_direct.tessellates',
                           lambda: tt.tessellate(surf3.evalpts, size_u=nu, size_v=nv, vertex_spacing=s), case, f3):
                _judge_mesh(ctx, 'tri_direct', list(tt.vertices), list(tt.faces), model, nu, nv, s, case, f3)
    elif kind == 'quad':
        from geomdl import tessellate
        feats = _feats(case, via='direct')
        surf = _build_surface(case['shape'], seed, (nu, nv))
        model = _Model(surf)
        ctx.state(dict(k=kind, s=case['surf'], n=[nu, nv]), nontrivial=nu >= 3 and nv >= 3)
        qt = tessellate.QuadTessellate()
        if _tessellate(ctx, 'C15.quad.tessellates', lambda: qt.tessellate(surf.evalpts, size_u=surf.sample_size_u, size_v=surf.sample_size_v),
                       case, feats):
            _judge_quads(ctx, 'quad', list(qt.vertices), list(qt.faces), model, nu, nv, case, feats)
        if case.get('via', 'both') != 'direct':
            f2 = _feats(case, via='surface')
            surf2 = _build_surface(case['shape'], seed, (nu, nv))
            surf2.tessellator = tessellate.QuadTessellate()
            if _tessellate(ctx, 'C15.quad_via_surface.tessellates', lambda: surf2.tessellate(), case, f2):
                _judge_quads(ctx, 'quad_via_surface', list(surf2.vertices), list(surf2.faces), _Model(surf2), nu, nv, case, f2)
    elif kind == 'trim':
        s = case['spacing']
        feats = _feats(case)
        surf = _build_surface(case['shape'], seed, (nu, nv), 'trim', case['trim'])
        model = _Model(surf)
        ctx.state(dict(k=kind, s=case['surf'], n=[nu, nv], sp=s, t=case['trim']), nontrivial=True)
        if not _tessellate(ctx, 'C15.trim.tessellates', lambda: surf.tessellate(vertex_spacing=s), case, feats):
            return
        _judge_mesh(ctx, 'trim', list(surf.vertices), list(surf.faces), model, nu, nv, s, case, feats, trim_spec=case['trim'])
    elif kind == 'export':
        s = case['spacing']
        feats = _feats(case)
        ctx.state(dict(k=kind, s=case['surf'], n=[nu, nv], sp=s, ud=case['update_delta']), nontrivial=nu > 2 and nv > 2)
        tmp = tempfile.mkdtemp(prefix='c15-')
        try:
            for fmt in case['formats']:
                surf = _build_surface(case['shape'], seed, (nu, nv))
                _judge_export(ctx, case, fmt, surf, [surf], tmp, dict(case, formats=[fmt]), feats)
        finally:
            shutil.rmtree(tmp, ignore_errors=True)
    elif kind == 'container':
        _container_case(case, ctx)


def _make_container(case, seed):
    from geomdl import multi
    nu, nv = case['n']
    surfs = []
    for m in case['members']:
        surfs.append(_build_surface(m['shape'], seed, None, case['tess'], m.get('trim')))
    cont = multi.SurfaceContainer()
    for sf in surfs:
        cont.add(sf)
    if case.get('tess_via_container'):
        cont.tessellator = type(surfs[0].tessellator)()
    cont.sample_size_u = nu
    cont.sample_size_v = nv
    return cont, surfs


def _container_case(case, ctx):
    seed = ctx.seed
    nu, nv = case['n']
    s = case['spacing']
    feats = _feats(case)
    ctx.state(dict(k='container', m=[m['surf'] for m in case['members']], n=[nu, nv], sp=s, t=case['tess'], p=case['pretess'],
                   ud=case['update_delta']), nontrivial=True)
    only = case.get('formats', EXPORT_FORMATS)
    if case['pretess'] and not case.get('skip_mesh'):
        cont, surfs = _make_container(case, seed)
        def _tess_container():
            if case.get('retess'):
                # documented keywords: delta=False keeps the elements' own sampling, force=True re-tessellates
                cont.tessellate(vertex_spacing=s, delta=False)
                _ = cont.vertices, cont.faces
                cont.tessellate(vertex_spacing=s, delta=False, force=True)
            else:
                cont.tessellate(vertex_spacing=s)
        if not _tessellate(ctx, 'C15.container.tessellates', _tess_container, case, feats):
            return
        verts, faces = list(cont.vertices), list(cont.faces)
        ids = [v.id for v in verts]
        ctx.check('C15.container.vertex_ids', ids == list(range(len(ids))), case, feats, 'consecutive ids 0..%d across the container' % (len(ids) - 1), ids[:40])
        fids = [f.id for f in faces]
        if case['tess'] == 'tri':
            ctx.check('C15.container.face_ids', fids == list(range(len(fids))), case, feats, 'consecutive face ids across the container', fids[:40])
        # the container lists are the concatenation of the members' lists
        cat_v = [v for sf in surfs for v in sf.vertices]
        cat_f = [f for sf in surfs for f in sf.faces]
        ctx.check('C15.container.concatenation', len(cat_v) == len(verts) and all(a is b for a, b in zip(cat_v, verts))
                  and len(cat_f) == len(faces) and all(a is b for a, b in zip(cat_f, faces)), case, feats,
                  'container vertices / faces = members vertices / faces in order', [len(cat_v), len(verts), len(cat_f), len(faces)])
        off = 0
        for k, (sf, m) in enumerate(zip(surfs, case['members'])):
            fk = dict(feats, index=k, surf=m['surf'], rational=m['shape']['rational'], sizes=list(m['shape']['sizes']))
            su, sv = sf.sample_size_u, sf.sample_size_v
            vs, fs = list(sf.vertices), list(sf.faces)
            if (su - 1) % s == 0 and (sv - 1) % s == 0 and su >= 2 and sv >= 2:
                _judge_mesh(ctx, 'container.member', vs, fs, _Model(sf), su, sv, s, case, dict(fk, member_nu=su, member_nv=sv),
                            trim_spec=m.get('trim'), offset=off)
            else:
                ctx.extra['container_member_spacing_does_not_divide'] += 1
                own = set(id(v) for v in vs)
                ctx.check('C15.container.member.face_refs', all(id(o) in own for f in fs for o in f.vertices), case, fk,
                          'faces of surface k use vertices of surface k', None)
            off += len(vs)
    # ---- exports of the container (after the container was tessellated, or on a fresh one)
    tmp = tempfile.mkdtemp(prefix='c15-')
    try:
        for fmt in only:
            cont, surfs = _make_container(case, seed)
            if case['pretess']:
                try:
                    cont.tessellate(vertex_spacing=s)
                    cont.vertices
                except Exception:
                    continue        # already reported above
            _judge_export(ctx, case, fmt, cont, surfs, tmp, dict(case, formats=[fmt], skip_mesh=True), feats)
    finally:
        shutil.rmtree(tmp, ignore_errors=True)

"""C20 - planar predicates and spatial queries agree with exact arithmetic (explorer E1)."""
import contextlib
import math
import itertools
import signal
from fractions import Fraction as F

from .. import alphabet as A
from .. import refmodel as R
from .. import shapes as S

PROPERTY = "C20"
VIA_HISTORY_EVERY = 5      # every k-th shape case is also run on an object that reached its definition through edits
EXPLORERS = ['E1']
RULE = ("E1: ray.intersect on every ordered pair of lines through two distinct points of {0,1,2}^2 and of {0,1}^3 (thorough "
        "{0,1,2}^3), integer and one dyadic affine image; wn_poly on every simple polygon with <=5 (6) vertices of the 3x3 "
        "(4x4) grid, both orientations, against every half-integer point off the boundary; convex_hull on every subset of size "
        "1..6 of the grid in three input orders; is_left on every grid triple; voxelize on surfaces/volumes x every grid size "
        "triple {2..4}^3 ({2..8}^3) x cuboid/cube; find_ctrlpts on curves over K(p,B,G) and surfaces over K'(p) products at all "
        "knots and p+1 interior points per span; non-trivial = non-degenerate configuration (lines not parallel, polygon not "
        "convex or query on a vertex row, point set not collinear, voxel grid with both filled and empty voxels, knot vector "
        "with an interior knot)")
ASSUMPTIONS = [
    "integer / dyadic coordinates: every input is exact in binary64, so the exact classification of the float inputs is the "
    "mathematical one; coordinates are O(1), far above ray.intersect's absolute tolerance 2^8 eps",
    "ray.intersect: parameters returned for COLINEAR / SKEW are not judged (the property only constrains them when intersecting)",
    "wn_poly: vertices passed closed (vertices[n] == vertices[0]) as documented; query points on the boundary are excluded",
    "convex_hull: points collinear with hull edges may or may not be returned; for collinear input only 'made of input points' "
    "and 'contains both extreme points' are demanded",
    "voxelize: single-process path only (num_procs=1, the pool path is C17); padding is the default 1e-7; a point closer than "
    "2*padding (+1e-12) to a face plane of a voxel is don't-care for that voxel; for shapes with a zero-extent bounding box "
    "axis (planar surface) the voxel count is not prescribed, and in cube mode the call is given 0.5 s of CPU time (the result "
    "needs milliseconds) after which it counts as not returning",
    "find_ctrlpts: points are identified by value on injective coded nets; weighted or unweighted points are both accepted",
]


def bounds(tier):
    return dict(
        quick=dict(ray='2-D {0,1,2}^2: 72x72 ordered pairs x 2 affine images; 3-D {0,1}^3: 56x56 x 2; {0,1,2}^3: 78 first '
                       'lines (origins (0,0,0),(1,1,1),(2,0,1)) x 702',
                   wn_poly='3x3 grid, 3..5 vertices, 49 query points; 4x4 grid, 3..4 vertices, 81 query points',
                   convex_hull='3x3 grid subsets of size 1..6, 4x4 grid subsets of size 1..4, 3 input orders; complements of <= 2/3/2 '
                               'points of the 3x3/4x4/5x5 grids and subsets of size >= 9 of a fixed 12-point set',
                   is_left='3x3 and 4x4 grid triples, 2 affine images',
                   voxelize='5 shapes x ({2,3,4}^3 + (8,8,8),(5,2,7),(2,6,3),(7,5,2)) x cuboid/cube', find_ctrlpts='curves p<=3 K(p,2,4) + unclamped; surfaces '
                   "degrees {1,2,3}^2 over K'(p) level 1"),
        thorough=dict(ray='2-D as quick; 3-D {0,1,2}^3: 702x702 ordered pairs (+ {0,1}^3 dyadic image)',
                      wn_poly='3x3 grid 3..5 vertices; 4x4 grid, 3..6 vertices, 81 query points',
                      convex_hull='3x3 and 4x4 grid, subsets of size 1..6, 3 input orders; complements of <= 2/5/3 points of the '
                                  '3x3/4x4/5x5 grids and subsets of size >= 6 of a fixed 12-point set',
                      is_left='3x3, 4x4, 5x5 grid triples, 2 affine images',
                      voxelize='7 shapes x {2..8}^3 x cuboid/cube', find_ctrlpts='curves p<=5 K(p,3,8)/K(p,2,4) + unclamped; '
                      "surfaces degrees {1,2,3}^2 over K'(p) level 2"))[tier]


# data variety: far from the origin in every coordinate (exact in floats: integer offsets), tiny and large scales, negative
AFF = {'id': (1.0, 0.0), 'dyadic': (0.5, -0.75), 'far': (1.0, 1.0e9), 'farneg': (1.0, -1.0e9), 'tiny': (2.0 ** -20, 0.0),
       'large': (1.0e6, -3.0e6), 'negfrac': (-0.375, 0.625)}
VARIETY_AFF = ['far', 'farneg', 'tiny', 'large', 'negfrac']


def _aff(p, name):
    s, t = AFF[name]
    return [s * c + t for c in p]


class _Timeout(Exception):
    pass


@contextlib.contextmanager
def _cpu_limit(seconds):
    """abort the enclosed library call after `seconds` of CPU time of this process (not wall clock, so the verdict
    does not depend on machine load); used where a defect shows as non-termination"""
    def handler(signum, frame):
        raise _Timeout("no result after %.1f s of CPU time" % seconds)
    old = signal.signal(signal.SIGVTALRM, handler)
    signal.setitimer(signal.ITIMER_VIRTUAL, seconds)
    try:
        yield
    finally:
        signal.setitimer(signal.ITIMER_VIRTUAL, 0)
        signal.signal(signal.SIGVTALRM, old)


def _call(ctx, obligation, rc, feats, fn):
    """(True, result) or, if the library raises, a violation of `obligation` and (False, None): the property
    promises a result for every input in scope"""
    try:
        return True, fn()
    except Exception as e:
        ctx.check(obligation, False, rc, feats, 'a result', repr(e), 'library call raised')
        return False, None


def _grid_pts(G, dim):
    return [list(p) for p in itertools.product(range(G), repeat=dim)]


# ----------------------------------------------------------------------------------------
# cases
# ----------------------------------------------------------------------------------------

def gen_cases(tier, seed):
    q = tier == 'quick'
    cases = []
    # is_left
    for G in ((3, 4) if q else (3, 4, 5)):
        for aff in ('id', 'dyadic') + (tuple(VARIETY_AFF) if G == 3 or not q else ()):
            cases.append(dict(kind='is_left', G=G, aff=aff))
    cases.append(dict(kind='is_left', G=3, aff='int_thin'))
    # rays
    for dim, G in ((2, 3), (3, 2)):
        pts = _grid_pts(G, dim)
        for a, b in itertools.permutations(pts, 2):
            for aff in ('id', 'dyadic'):
                cases.append(dict(kind='ray', dim=dim, G=G, p1=a, p2=b, aff=aff))
            if (a[0] + 2 * b[0] + a[-1]) % (3 if q else 1) == 0:
                # (ray.intersect decides with an absolute tolerance of 2^8 eps: only maps that keep coordinates O(1) or scale
                # them exactly by a power of two are inside its contract - see ASSUMPTIONS)
                for aff in ('negfrac', 'tiny'):
                    cases.append(dict(kind='ray', dim=dim, G=G, p1=a, p2=b, aff=aff))
    pts = _grid_pts(3, 3)
    for a, b in itertools.permutations(pts, 2):
        if not q or a in ([0, 0, 0], [1, 1, 1], [2, 0, 1]):
            cases.append(dict(kind='ray', dim=3, G=3, p1=a, p2=b, aff='id'))
    # convex hull
    for G, kmax in ((3, 6), (4, 4 if q else 6)):
        for k in range(1, kmax + 1):
            for first in range(G * G - k + 1):
                cases.append(dict(kind='hull', G=G, k=k, first=first))
    # convex hull beyond the exhaustively enumerated sizes: all large subsets (complements of <= c points) of the grids and
    # every subset of size >= 9 of a fixed 12-point set without grid structure
    for fam, c in (('comp3', 2), ('comp4', 3 if q else 5), ('comp5', 2 if q else 3), ('gen12', 3 if q else 6)):
        for cs in range(0, c + 1):
            cases.append(dict(kind='hull_big', family=fam, drop=cs))
    # the same point sets far from the origin, tiny, large, negative / fractional (exactly representable images)
    for aff in VARIETY_AFF:
        for G, kmax in ((3, 5), (4, 3 if q else 5)):
            for k in range(3, kmax + 1):
                for first in range(G * G - k + 1):
                    cases.append(dict(kind='hull', G=G, k=k, first=first, aff=aff))
        for fam, c in (('comp3', 1), ('gen12', 2)):
            for cs in range(0, c + 1):
                cases.append(dict(kind='hull_big', family=fam, drop=cs, aff=aff))
    cases.append(dict(kind='session', name='find_ctrlpts'))
    # winding number
    for G, kmax in ([(3, 5), (4, 4)] if q else [(3, 5), (4, 6)]):
        for k in range(3, kmax + 1):
            for v0 in range(G * G):
                for v1 in range(v0 + 1, G * G):
                    if G * G - v0 >= k:
                        cases.append(dict(kind='wn', G=G, k=k, v0=v0, v1=v1))
    # find_ctrlpts
    plan = [(1, 2, 4), (2, 2, 4), (3, 2, 4)] if q else [(1, 3, 8), (2, 3, 8), (3, 3, 8), (4, 2, 4), (5, 2, 4)]
    for p, B, Gk in plan:
        for kv in A.clamped_kvs(p, B, Gk):
            for rat in (False, True):
                cases.append(dict(kind='fc', shape=A.shape_desc([kv], [p], rat, 3, 'coded', 'coded')))
    for p in range(1, 4 if q else 6):
        for kv in A.unclamped_kvs(p, p + 3):
            cases.append(dict(kind='fc', shape=A.shape_desc([kv], [p], False, 3, 'coded'), unclamped=True))
    for pu, pv in itertools.product((1, 2, 3), repeat=2):
        for ku in A.rep_kvs(pu, 1 if q else 2):
            for kv in A.rep_kvs(pv, 1 if q else 2):
                rat = (len(ku) + len(kv)) % 2 == 1
                cases.append(dict(kind='fc', shape=A.shape_desc([ku, kv], [pu, pv], rat, 3, 'coded', 'coded')))
    # voxelize
    sizes = (2, 3, 4) if q else (2, 3, 4, 5, 6, 7, 8)
    for sh in range(len(VOX_SHAPES) if not q else 5):
        flat = VOX_SHAPES[sh].get('flat')
        triples = list(itertools.product(sizes, repeat=3))
        if q:
            triples += [(8, 8, 8), (5, 2, 7), (2, 6, 3), (7, 5, 2)]
        for g in triples:
            for cubes in (False, True):
                if flat and cubes and g not in FLAT_CUBE_GRIDS[:3 if q else None]:
                    continue
                cases.append(dict(kind='vox', shape=sh, grid=list(g), cubes=cubes))
    # data variety x option: models in units of 1e-6 and 1e6, in one process and with num_procs = 2, 4
    for sh in (0, 1, 2, 5):
        for g in ((8, 8, 8), (3, 4, 5)):
            for cs in (1e-6, 1e6):
                for procs in (None, 2, 4):
                    cases.append(dict(kind='vox', shape=sh, grid=list(g), cubes=False, coord_scale=cs, procs=procs))
            cases.append(dict(kind='vox', shape=sh, grid=list(g), cubes=False, procs=2))
    # the same query on objects that reached their definition through edits after their views had been read
    for sh in (0, 1, 2, 4):
        for g in ((2, 3, 4), (3, 3, 3)):
            for via in ('history', 'history2'):
                cases.append(dict(kind='vox', shape=sh, grid=list(g), cubes=False, via=via))
    return cases


def case_weight(c):
    k = c['kind']
    if k == 'wn':
        return 30.0 * (c['G'] ** 2 - c['v0']) ** (c['k'] - 2)
    if k == 'ray':
        return 700 if c['G'] == 3 and c['dim'] == 3 else 70
    if k == 'vox':
        g = c['grid']
        return g[0] * g[1] * g[2] * (60 if c['cubes'] else 20)
    if k == 'session':
        return 20000
    if k == 'hull_big':
        n = 12 if c['family'] == 'gen12' else int(c['family'][-1]) ** 2
        return 40.0 * n ** c['drop']
    if k == 'hull':
        return 3.0 * (c['G'] ** 2 - c['first']) ** (c['k'] - 1) / max(1, [1, 1, 2, 6, 24, 120][c['k'] - 1])
    if k == 'is_left':
        return c['G'] ** 6 / 10.0
    if k == 'fc':
        w = 1
        for kv in c['shape']['kvs']:
            w *= len(kv) * 3
        return w
    return 10


def _session_cases(name, tier):
    """long session: find_ctrlpts on 90 curves and 30 surfaces with pairwise different knot vectors"""
    out = []
    for k in range(1, 91):
        p = 1 + k % 3
        kv = A.clamped_kv(p, [(k / 97.0, 1)] + ([(0.5 + k / 200.0, min(p, 2))] if k % 2 else []))
        out.append(dict(kind='fc', shape=A.shape_desc([kv], [p], k % 4 == 0, 3, 'coded', 'coded')))
        if k % 3 == 0:
            kv2 = A.clamped_kv(1, [(k / 101.0, 1)])
            out.append(dict(kind='fc', shape=A.shape_desc([kv, kv2], [p, 1], False, 3, 'coded')))
    return out


def run_case(case, ctx):
    k = case['kind']
    if k == 'session':
        import sys
        from .. import core
        return core.run_session(sys.modules[__name__], ctx, case, _session_cases(case['name'], ctx.tier), 20)
    if k == 'ray':
        _ray_case(case, ctx)
    elif k == 'is_left':
        _is_left_case(case, ctx)
    elif k == 'hull':
        _hull_case(case, ctx)
    elif k == 'hull_one':
        _hull_one(case['pts'], case, ctx)
    elif k == 'hull_big':
        base = GEN12 if case['family'] == 'gen12' else _grid_pts(int(case['family'][-1]), 2)
        for dropped in itertools.combinations(range(len(base)), case['drop']):
            _hull_one([p for i, p in enumerate(base) if i not in dropped], case, ctx)
    elif k == 'wn':
        _wn_case(case, ctx)
    elif k == 'wn_one':
        _wn_one([tuple(v) for v in case['poly']], case, ctx, case.get('queries'))
    elif k == 'fc':
        _fc_case(case, ctx)
    elif k == 'vox':
        _vox_case(case, ctx)
    else:
        raise ValueError(k)


# ----------------------------------------------------------------------------------------
# is_left
# ----------------------------------------------------------------------------------------

def _is_left_case(case, ctx):
    from geomdl import linalg
    G, aff = case['G'], case['aff']
    pts = _grid_pts(G, 2)
    ctx.state(dict(k='is_left', G=G, aff=aff))
    triples = case.get('triples') or itertools.product(pts, repeat=3)
    if aff == 'int_thin' and not case.get('triples'):
        # thin triangles with huge INTEGER coordinates (Python ints, as a caller working on an integer grid passes them): the
        # determinant is 1 or 2 while its two products exceed 2**53 - exact in integer arithmetic, lost in floating point
        triples = []
        for A_ in (94906267, 10 ** 9 + 7, 3 * 10 ** 15 + 1):
            B_ = A_ - 1
            base_pts = [(0, 0), (A_, B_), (A_ + 1, B_ + 1), (2 * A_, 2 * B_ + 1), (A_ + 1, B_)]
            triples += [[list(p) for p in t] for t in itertools.permutations(base_pts, 3)]
    for a, b, c in triples:
        fa, fb, fc = (list(a), list(b), list(c)) if aff == 'int_thin' else (_aff(a, aff), _aff(b, aff), _aff(c, aff))
        o = R.orient([F(x) for x in fa], [F(x) for x in fb], [F(x) for x in fc])
        se = (o > 0) - (o < 0)
        rc = dict(case, triples=[[a, b, c]])
        feats = dict(G=G, aff=aff, exact_sign=se, degenerate=(a == b or b == c or a == c))
        ok, got = _call(ctx, 'C20.is_left.sign', rc, feats, lambda: linalg.is_left(fa, fb, fc))
        if not ok:
            continue
        sg = (got > 0) - (got < 0)
        ctx.check('C20.is_left.sign', sg == se, rc, feats, se, got)
        ctx.outcome('il%d' % se)


# ----------------------------------------------------------------------------------------
# rays
# ----------------------------------------------------------------------------------------

def _cross(a, b):
    return (a[1] * b[2] - a[2] * b[1], a[2] * b[0] - a[0] * b[2], a[0] * b[1] - a[1] * b[0])


def _dot(a, b):
    return sum(x * y for x, y in zip(a, b))


def classify_lines(p1, p2, q1, q2):
    """exact: ('COLINEAR'|'SKEW'|'INTERSECT', t1, t2, point, coincident) for lines p1+t(p2-p1), q1+t(q2-q1)"""
    dim = len(p1)
    e = lambda v: tuple(F(x) for x in v) + ((F(0),) if dim == 2 else ())
    P1, P2, Q1, Q2 = e(p1), e(p2), e(q1), e(q2)
    d1 = tuple(b - a for a, b in zip(P1, P2))
    d2 = tuple(b - a for a, b in zip(Q1, Q2))
    w = tuple(b - a for a, b in zip(P1, Q1))
    c = _cross(d1, d2)
    if c == (0, 0, 0):
        coincident = _cross(w, d1) == (0, 0, 0)
        return 'COLINEAR', None, None, None, coincident
    if _dot(w, c) != 0:
        return 'SKEW', None, None, None, False
    cc = _dot(c, c)
    t1 = _dot(_cross(w, d2), c) / cc
    t2 = _dot(_cross(w, d1), c) / cc
    X = tuple(a + t1 * d for a, d in zip(P1, d1))
    Y = tuple(a + t2 * d for a, d in zip(Q1, d2))
    assert X == Y, "harness: exact intersection inconsistent"
    return 'INTERSECT', t1, t2, X[:dim], False


def _ray_case(case, ctx):
    from geomdl import ray
    dim, G, aff = case['dim'], case['G'], case['aff']
    names = {ray.RayIntersection.INTERSECT: 'INTERSECT', ray.RayIntersection.COLINEAR: 'COLINEAR',
             ray.RayIntersection.SKEW: 'SKEW'}
    p1, p2 = _aff(case['p1'], aff), _aff(case['p2'], aff)
    ctx.state(dict(k='ray', d=dim, G=G, a=case['p1'], b=case['p2'], f=aff))
    if 'q' in case:
        seconds = [tuple(case['q'])]
    else:
        seconds = itertools.permutations(_grid_pts(G, dim), 2)
    for a, b in seconds:
        q1, q2 = _aff(a, aff), _aff(b, aff)
        rc = dict(case, q=[list(a), list(b)])
        cls, t1, t2, X, coincident = classify_lines(p1, p2, q1, q2)
        feats = dict(dim=dim, G=G, aff=aff, exact=cls, coincident=coincident,
                     common_origin=(list(a) == list(case['p1'])), same_points=(sorted([list(a), list(b)]) ==
                                                                               sorted([case['p1'], case['p2']])))
        r1, r2 = ray.Ray(p1, p2), ray.Ray(q1, q2)
        ok, res = _call(ctx, 'C20.ray.status', rc, feats, lambda: ray.intersect(r1, r2))
        if not ok:
            continue
        ok_shape = isinstance(res, tuple) and len(res) == 3
        if not ctx.check('C20.ray.result_shape', ok_shape, rc, feats, '(t1, t2, status)', res):
            continue
        g1, g2, st = res
        ctx.check('C20.ray.status', names.get(st) == cls, rc, feats, cls, names.get(st, st))
        ctx.outcome('ray%d%s' % (dim, cls))
        if cls == 'INTERSECT' and names.get(st) == 'INTERSECT':
            ctx.close('C20.ray.intersection_point', [list(r1.eval(g1)), list(r2.eval(g2))], [list(X), list(X)], 1e-9, 1.0,
                      rc, feats)


# ----------------------------------------------------------------------------------------
# convex hull
# ----------------------------------------------------------------------------------------

def strictly_extreme(pts):
    """vertices of the convex hull by definition: p is NOT extreme iff it equals another point, lies on a
    segment between two other points, or inside/on a triangle of three other points (Caratheodory)"""
    pts = [tuple(p) for p in pts]
    out = []
    for p in set(pts):
        others = [o for o in set(pts) if o != p]
        ext = True
        for a, b in itertools.combinations(others, 2):
            if R.on_segment(a, b, p):
                ext = False
                break
        if ext:
            for a, b, c in itertools.combinations(others, 3):
                o = R.orient(a, b, c)
                if o == 0:
                    continue
                tri = (a, b, c) if o > 0 else (a, c, b)
                if R.hull_contains(tri, p):
                    ext = False
                    break
        if ext:
            out.append(p)
    return out


GEN12 = [[0, 3], [2, 0], [6, 2], [4, 6], [3, 3], [2, 2], [4, 3], [3, 1], [3, 4], [1, 5], [5, 5], [7, 4]]


def _hull_case(case, ctx):
    G, k, first = case['G'], case['k'], case['first']
    allp = _grid_pts(G, 2)
    for rest in itertools.combinations(range(first + 1, G * G), k - 1):
        pts = [allp[first]] + [allp[i] for i in rest]
        _hull_one(pts, case, ctx)


def _hull_one(pts, case, ctx):
    from geomdl import linalg
    pts = [[float(c) for c in p] for p in pts]
    if case.get('aff'):
        pts = [_aff(p, case['aff']) for p in pts]
    n = len(pts)
    # exact integers (coordinates times their common denominator; products of coordinates around 1e9 do not fit a float)
    den = 1
    for p in pts:
        for c in p:
            d = F(c).denominator
            den = den * d // math.gcd(den, d)
    tp = [tuple(int(F(c) * den) for c in p) for p in pts]
    base = next((c for c in tp if c != tp[0]), None)
    collinear = base is None or all(R.orient(tp[0], base, c) == 0 for c in tp)
    ext = strictly_extreme(tp)
    ctx.state('h' + ','.join('%g' % c for p in pts for c in p), nontrivial=not collinear)
    orders = [('sorted', pts), ('reversed', pts[::-1]), ('interleaved', pts[1::2] + pts[0::2])]
    if 'order' in case:
        orders = [o for o in orders if o[0] == case['order']]
    for oname, inp in orders:
        rc = dict(kind='hull_one', pts=pts, order=oname)      # (pts already carry the affine map of the case)
        feats = dict(size=n, collinear=collinear, order=oname, n_extreme=len(ext), aff=case.get('aff') or 'id')
        ok, res = _call(ctx, 'C20.convex_hull.made_of_input_points', rc, feats,
                        lambda: linalg.convex_hull([list(p) for p in inp]))
        if not ok:
            continue
        res_t = [tuple(F(c) * den for c in p) for p in res]
        res_t = [tuple(int(c) if c.denominator == 1 else c for c in p) for p in res_t]
        ctx.outcome('hull%d' % len(res_t))
        ctx.check('C20.convex_hull.made_of_input_points',
                  all(p in tp for p in res_t) and len(set(res_t)) == len(res_t), rc, feats, 'distinct input points', res)
        ctx.check('C20.convex_hull.extreme_points', all(p in res_t for p in ext), rc, feats, sorted(ext), res)
        if collinear:
            continue
        ok = len(res_t) >= 3 and len(set(res_t)) == len(res_t)
        if ok:
            m = len(res_t)
            ok = (R.polygon_area2(res_t) > 0 and R.is_simple_polygon(res_t)
                  and all(R.orient(res_t[i], res_t[(i + 1) % m], res_t[(i + 2) % m]) >= 0 for i in range(m)))
        ctx.check('C20.convex_hull.ccw_convex', ok, rc, feats, 'counter-clockwise convex polygon', res)
        if ok:
            ctx.check('C20.convex_hull.contains_input', all(R.hull_contains(res_t, p) for p in tp), rc, feats,
                      'every input point inside or on the hull', res)


# ----------------------------------------------------------------------------------------
# winding number
# ----------------------------------------------------------------------------------------

def _wn_case(case, ctx):
    G, k, v0, v1 = case['G'], case['k'], case['v0'], case['v1']
    allp = [tuple(p) for p in _grid_pts(G, 2)]
    pool = [i for i in range(v0 + 1, G * G) if i != v1]
    for rest in itertools.permutations(pool, k - 2):
        poly = [allp[v0], allp[v1]] + [allp[i] for i in rest]
        if not R.is_simple_polygon(poly):
            continue
        _wn_one(poly, case, ctx, None)


def _wn_one(poly, case, ctx, queries):
    from geomdl import linalg
    k = len(poly)
    G = case.get('G') or (int(max(max(p) for p in poly)) + 1)
    area2 = R.polygon_area2(poly)
    turns = [R.orient(poly[i], poly[(i + 1) % k], poly[(i + 2) % k]) for i in range(k)]
    convex = all(t >= 0 for t in turns) or all(t <= 0 for t in turns)
    ctx.state('w' + ','.join('%d,%d' % (p[0], p[1]) for p in poly), nontrivial=not convex)
    closed = [[float(p[0]), float(p[1])] for p in poly] + [[float(poly[0][0]), float(poly[0][1])]]
    p2 = [(2 * p[0], 2 * p[1]) for p in poly]           # doubled integer coordinates for the exact side
    ys = set(p[1] for p in p2)
    if queries is None:
        qs = [(a, b) for a in range(-1, 2 * G) for b in range(-1, 2 * G)]
    else:
        qs = [(int(round(2 * x)), int(round(2 * y))) for x, y in queries]
    for a, b in qs:
        if any(R.on_segment(p2[i], p2[(i + 1) % k], (a, b)) for i in range(k)):
            continue
        wn = R.winding_number((a, b), p2)
        par = R.point_in_polygon_crossing((a, b), p2)
        assert (wn != 0) == par and abs(wn) <= 1 and (wn == 0 or (wn > 0) == (area2 > 0)), \
            "harness: exact winding number and crossing parity disagree on a simple polygon"
        qf = [a / 2.0, b / 2.0]
        feats = dict(vertices=k, G=G, orientation='ccw' if area2 > 0 else 'cw', convex=convex, inside=(wn != 0),
                     on_vertex_row=(b in ys), integer_query=(a % 2 == 0 and b % 2 == 0))
        rc = dict(kind='wn_one', G=G, poly=[list(p) for p in poly], queries=[qf])
        ok, got = _call(ctx, 'C20.wn_poly.inside', rc, feats, lambda: linalg.wn_poly(qf, closed))
        if not ok:
            continue
        ctx.check('C20.wn_poly.inside', isinstance(got, bool) and got == (wn != 0), rc, feats, wn != 0, got)
    ctx.outcome('wn%d%s' % (k, 'c' if convex else 'n'))


# ----------------------------------------------------------------------------------------
# find_ctrlpts
# ----------------------------------------------------------------------------------------

def _fc_case(case, ctx):
    from geomdl import operations, helpers
    desc = case['shape']
    obj = S.build(desc, ctx.seed)
    pd = desc['pdim']
    d = R.def_from_obj(obj)
    degs, kvs, sizes = d['degrees'], d['kvs'], d['sizes']
    ctx.state(dict(k='fc', d=desc), nontrivial=A.is_nontrivial(desc) or bool(case.get('unclamped')))
    cp = [tuple(p) for p in obj.ctrlpts]
    cpw = [tuple(p) for p in obj.ctrlptsw] if desc['rational'] else cp
    assert len(set(cp)) == len(cp), "harness: coded net not injective"
    index = {}
    for i, p in enumerate(cp):
        index[p] = i
    for i, p in enumerate(cpw):
        index.setdefault(p, i)
    psets = case.get('params') or [A.params_for(p, [float(x) for x in kv]) for p, kv in zip(degs, kvs)]
    funcs = [('linear', None), ('binary', helpers.find_span_binsearch)]
    for prm in itertools.product(*psets):
        info = []
        for a in range(pd):
            u = F(prm[a])
            p, U = degs[a], kvs[a]
            n = sizes[a]
            s, rows = R.basis_values(p, U, u, 0)
            nz = set(s - p + j for j in range(p + 1) if rows[0][j] != 0)
            at_knot = u in U
            allowed = [set(range(s - p, s + 1))]
            if at_knot:
                # the non-empty span on the other side of the knot is just as legitimate
                left = [i for i in range(p, n) if U[i] < U[i + 1] and U[i + 1] == u]
                if left:
                    allowed.append(set(range(left[-1] - p, left[-1] + 1)))
            info.append((nz, allowed, at_knot))
        at_knot = any(i[2] for i in info)
        for fname, fn in funcs:
            kw = {} if fn is None else dict(find_span_func=fn)
            rc = dict(case, params=[[x] for x in prm])
            feats = dict(pdim=pd, degrees=list(degs), rational=desc['rational'], at_knot=at_knot, span_func=fname,
                         unclamped=bool(case.get('unclamped')),
                         at_end=any(F(x) == U[-(p + 1)] for x, U, p in zip(prm, kvs, degs)))
            name = 'C20.find_ctrlpts.%s.%s' % ('curve' if pd == 1 else 'surface', 'knot' if at_knot else 'interior')
            if pd == 1:
                ok, res = _call(ctx, name, rc, feats, lambda: operations.find_ctrlpts(obj, prm[0], **kw))
                if not ok:
                    continue
                flat = [tuple(p) for p in res]
            else:
                ok, res = _call(ctx, name, rc, feats, lambda: operations.find_ctrlpts(obj, prm[0], prm[1], **kw))
                if not ok:
                    continue
                flat = [tuple(p) for row in res for p in row]
            if not all(p in index for p in flat):
                ctx.check(name, False, rc, feats, 'control points of the shape', res, 'returned a point that is no control point')
                continue
            got = sorted(index[p] for p in flat)
            if pd == 1:
                want_nz = sorted(info[0][0])
                alloweds = [sorted(a) for a in info[0][1]]
            else:
                sv = sizes[1]
                want_nz = sorted(j + sv * i for i in info[0][0] for j in info[1][0])
                alloweds = [sorted(j + sv * i for i in au for j in av) for au in info[0][1] for av in info[1][1]]
            if not at_knot:
                ctx.check(name, got == want_nz, rc, feats, want_nz, got)
            else:
                ok = len(set(got)) == len(got) and set(want_nz) <= set(got) and any(set(got) <= set(a) for a in alloweds)
                ctx.check(name, ok, rc, feats, dict(contains=want_nz, within=alloweds), got)
            ctx.outcome('fc%d:%d:%d' % (pd, len(got), len(want_nz)))


# ----------------------------------------------------------------------------------------
# voxelize
# ----------------------------------------------------------------------------------------

def _vol_points(sizes, fn):
    """control points in library order v + sv*(u + su*w)"""
    su, sv, sw = sizes
    return [fn(i, j, k) for k in range(sw) for i in range(su) for j in range(sv)]


VOX_SHAPES = [
    dict(name='surf_p21_coded', desc=A.shape_desc([A.clamped_kv(2, [(0.5, 1)]), A.clamped_kv(1, [])], [2, 1], False, 3, 'coded'),
         sample=[5, 4]),
    dict(name='surf_p22_rational', desc=A.shape_desc([A.clamped_kv(2, []), A.clamped_kv(2, [(0.25, 1)])], [2, 2], True, 3, 'coded',
                                                      'coded'), sample=[6, 5]),
    dict(name='vol_p111', desc=A.shape_desc([A.clamped_kv(1, []), A.clamped_kv(1, [(0.5, 1)]), A.clamped_kv(1, [])], [1, 1, 1],
                                            False, 3, 'coded'), sample=[3, 4, 3]),
    dict(name='surf_flat_z', flat=True,
         desc=dict(A.shape_desc([A.clamped_kv(1, [(0.5, 1)]), A.clamped_kv(2, [])], [1, 2], False, 3, 'coded'),
                   points=[[float(2 * i + (j % 2)), float(3 * j - i), 1.5] for i in range(3) for j in range(3)]),
         sample=[4, 5]),
    dict(name='vol_p211_box', desc=dict(A.shape_desc([A.clamped_kv(2, []), A.clamped_kv(1, []), A.clamped_kv(1, [])], [2, 1, 1],
                                                     False, 3, 'coded'),
                                        points=_vol_points((3, 2, 2), lambda i, j, k: [float(i), float(2 * j), float(3 * k)])),
         sample=[5, 3, 4]),
    dict(name='surf_p11_tilted', desc=dict(A.shape_desc([A.clamped_kv(1, []), A.clamped_kv(1, [])], [1, 1], False, 3, 'coded'),
                                           points=[[0.0, 0.0, 0.0], [0.0, 4.0, 2.0], [6.0, 0.0, 3.0], [6.0, 4.0, 5.0]]),
         sample=[7, 5]),
    dict(name='surf_p32_seeded', desc=A.shape_desc([A.clamped_kv(3, [(0.5, 1)]), A.clamped_kv(2, [(0.25, 1), (0.5, 1)])], [3, 2],
                                                   False, 3, 'seeded'), sample=[8, 7]),
]
FLAT_CUBE_GRIDS = [(2, 2, 2), (3, 4, 2), (4, 4, 4), (8, 8, 8), (2, 8, 5), (7, 3, 2), (5, 5, 5), (3, 2, 8)]
PAD = 1e-7
DC = 2 * PAD + 1e-12


def _vox_case(case, ctx):
    from geomdl import voxelize
    spec = VOX_SHAPES[case['shape']]
    desc = spec['desc']
    if case.get('coord_scale'):
        # data variety: the same shape in units of 1e-6 / 1e6
        cs = float(case['coord_scale'])
        desc = dict(desc, points=[[c * cs for c in p] for p in S.net_points(desc, ctx.seed)[0]])
    obj = S.build(desc, ctx.seed)
    pd = desc['pdim']
    if pd == 2:
        obj.sample_size_u, obj.sample_size_v = spec['sample']
    else:
        obj.sample_size_u, obj.sample_size_v, obj.sample_size_w = spec['sample']
    g = case['grid']
    cubes = case['cubes']
    flat = bool(spec.get('flat'))
    ctx.state(dict(k='vox', s=case['shape'], g=g, c=cubes))
    feats = dict(shape=spec['name'], pdim=pd, grid=g, cubes=cubes, flat=flat, rational=desc['rational'],
                 anisotropic=len(set(g)) > 1, procs=case.get('procs'), coord_scale=case.get('coord_scale'))
    rc = dict(case)
    cps = [list(p) for p in obj.ctrlpts]
    bmin = [min(p[a] for p in cps) for a in range(3)]
    bmax = [max(p[a] for p in cps) for a in range(3)]
    ext = [bmax[a] - bmin[a] for a in range(3)]
    scale = max(1.0, max(abs(x) for x in bmin + bmax))
    obj.evalpts, obj.bbox      # evaluated outside the guarded call
    if cubes and flat:
        def run():
            with _cpu_limit(0.5):
                return voxelize.voxelize(obj, grid_size=tuple(g), use_cubes=True)
        ok, res = _call(ctx, 'C20.voxelize.returns', rc, feats, run)
    elif cubes:
        ok, res = _call(ctx, 'C20.voxelize.returns', rc, feats,
                        lambda: voxelize.voxelize(obj, grid_size=tuple(g), use_cubes=True))
    elif case.get('procs'):
        # the documented num_procs option, through the pool seam (one forked worker takes every chunk; schedules are C17's business)
        from .. import vpool

        def run_mp():
            with vpool.installed(vpool.Schedule(lambda ci, nc, k: tuple([0] * nc))):
                return voxelize.voxelize(obj, grid_size=tuple(g), num_procs=case['procs'])
        ok, res = _call(ctx, 'C20.voxelize.returns', rc, feats, run_mp)
    else:
        ok, res = _call(ctx, 'C20.voxelize.returns', rc, feats, lambda: voxelize.voxelize(obj, grid_size=tuple(g)))
    if not ok:
        return
    ctx.check('C20.voxelize.returns', True, rc, feats)
    if not ctx.check('C20.voxelize.result_shape', isinstance(res, tuple) and len(res) == 2, rc, feats, '(grid, filled)', res):
        return
    grid, filled = res
    pts = [list(p) for p in obj.evalpts]
    ok = (len(grid) == len(filled) and all(len(v) == 2 and len(v[0]) == 3 and len(v[1]) == 3 for v in grid)
          and all(f in (0, 1) for f in filled))
    if not ctx.check('C20.voxelize.result_shape', ok, rc, feats, 'grid of [min,max] boxes and one 0/1 flag per voxel',
                     [len(grid), len(filled)]):
        return
    # --- grid structure: Cartesian product of per-axis intervals, first axis slowest
    axes = []
    for a in range(3):
        seen = []
        for v in grid:
            iv = (v[0][a], v[1][a])
            if iv not in seen:
                seen.append(iv)
        axes.append(seen)
    expect_seq = [(x, y, z) for x in axes[0] for y in axes[1] for z in axes[2]]
    got_seq = [((v[0][0], v[1][0]), (v[0][1], v[1][1]), (v[0][2], v[1][2])) for v in grid]
    sorted_axes = all(all(s[i][0] < s[i + 1][0] for i in range(len(s) - 1)) for s in axes)
    ctx.check('C20.voxelize.grid.order', got_seq == expect_seq and sorted_axes, rc, feats,
              'x-major Cartesian product of ascending per-axis intervals', [len(s) for s in axes])
    product_ok = len(got_seq) == len(expect_seq) and set(got_seq) == set(expect_seq)
    if not cubes:
        steps = [ext[a] / (g[a] - 1) for a in range(3)]
    else:
        st = min(ext[a] / (g[a] - 1) for a in range(3) if ext[a] > 0)
        steps = [st, st, st]
    widths_ok = all(abs((iv[1] - iv[0]) - steps[a]) <= 1e-9 * scale for a in range(3) for iv in axes[a])
    ctx.check('C20.voxelize.grid.voxel_size', widths_ok, rc, feats, steps,
              [[iv[1] - iv[0] for iv in axes[a][:3]] for a in range(3)])
    if not flat:
        if not cubes:
            ctx.check('C20.voxelize.grid.count', len(grid) == g[0] * g[1] * g[2] and [len(s) for s in axes] == list(g), rc, feats,
                      dict(total=g[0] * g[1] * g[2], per_axis=g), dict(total=len(grid), per_axis=[len(s) for s in axes]))
        if not cubes and [len(s) for s in axes] == list(g):
            starts_ok = all(abs(axes[a][i][0] - (bmin[a] + i * steps[a])) <= 1e-9 * scale for a in range(3)
                            for i in range(g[a]))
            ctx.check('C20.voxelize.grid.positions', starts_ok, rc, feats, 'start = bbox min + i*step',
                      [[iv[0] for iv in axes[a]] for a in range(3)])
    # --- union covers the bounding box (of the control points, hence the shape), up to the padding
    cover = product_ok
    for a in range(3):
        s = sorted(axes[a])
        if s[0][0] - PAD > bmin[a]:
            cover = False
        reach = s[0][1]
        for lo, hi in s[1:]:
            if lo - PAD > reach + PAD:
                cover = False
            reach = max(reach, hi)
        if reach + PAD < bmax[a]:
            cover = False
    ctx.check('C20.voxelize.grid.covers_bbox', cover, rc, feats, [bmin, bmax], [[s[0], s[-1]] for s in axes])
    # --- three-valued membership per axis interval: 2 = inside, 0 = outside, 1 = within 2*padding of a face plane
    cls = []
    for a in range(3):
        tab = {}
        for iv in axes[a]:
            row = []
            for p in pts:
                x = p[a]
                if x < iv[0] - DC or x > iv[1] + DC:
                    row.append(0)
                elif iv[0] + DC < x < iv[1] - DC:
                    row.append(2)
                else:
                    row.append(1)
            tab[iv] = row
        cls.append(tab)
    npts = len(pts)
    covered = [False] * npts
    n_in = n_out = 0
    bad_missing, bad_spurious = [], []
    for vi, key in enumerate(got_seq):
        rx, ry, rz = cls[0][key[0]], cls[1][key[1]], cls[2][key[2]]
        best = 0
        for i in range(npts):
            c = min(rx[i], ry[i], rz[i])
            if c:
                if filled[vi]:
                    covered[i] = True
                if c > best:
                    best = c
        if best == 2:
            n_in += 1
            if not filled[vi]:
                bad_missing.append(vi)
        elif best == 0:
            n_out += 1
            if filled[vi]:
                bad_spurious.append(vi)
    ctx.check('C20.voxelize.filled.contains_point_implies_1', not bad_missing, rc, feats,
              'voxels with a sample point strictly inside are marked 1', dict(voxels=bad_missing[:8], boxes=[grid[i] for i in bad_missing[:2]]))
    ctx.check('C20.voxelize.filled.no_point_implies_0', not bad_spurious, rc, feats,
              'voxels with every sample point clearly outside are marked 0', dict(voxels=bad_spurious[:8], boxes=[grid[i] for i in bad_spurious[:2]]))
    miss = [i for i in range(npts) if not covered[i]]
    ctx.check('C20.voxelize.filled.every_point_in_a_filled_voxel', not miss, rc, feats,
              'each sample point lies in (or within 2*padding of) a voxel marked 1', [pts[i] for i in miss[:4]])
    ctx.extra['voxels_decided_in'] += n_in
    ctx.extra['voxels_decided_out'] += n_out
    ctx.extra['voxels_dont_care'] += len(grid) - n_in - n_out
    ctx.outcome('vox%d/%d' % (sum(filled), len(filled)))

"""C16 - linear-algebra routines satisfy their defining equations on every call (explorers E1 + E2).

E1  every small integer matrix / structured families / collocation matrices x every routine, judged by exact
    rational elimination, each call made from the pristine module state (memoised results cleared);
E2  every call sequence of bounded depth over a small alphabet of routine calls, hidden module state = the
    memoised (lru_cache) results; every call must return what the same call returns from the pristine state.
"""
import copy
import itertools
import math
import sys
from fractions import Fraction as F

from .. import alphabet as A
from .. import core
from .. import refmodel as R

PROPERTY = "C16"
EXPLORERS = ['E1', 'E2']
RULE = ("E1: every n x n matrix over {-1,0,1,2} for n<=2 and over {-1,0,1} (quick) / {-1,0,1,2} (thorough) for n=3; every "
        "4 x 4 matrix with border (3 1 1 0 | 3 1 1 1) and inner 3 x 3 block over {0,1,2}; for "
        "n<=8 structured families: strictly diagonally dominant (coded, dense/tridiagonal/sparse, integer and scaled), "
        "their row permutations, 1/(i+j+1)+cI and its row permutations, every spline collocation matrix of the knot "
        "alphabet K(p,B,G) at Greville parameters and of averaged knot vectors for 3 parameter alphabets; right-hand "
        "sides: all unit columns and a coded 3-column block; routines lu_solve, lu_factor, matrix_inverse, "
        "matrix_determinant, matrix_pivot, lu_decomposition, forward/backward substitution, each called from the "
        "pristine module state; helpers over exhaustive small vectors/matrices. E2: all call sequences up to the depth "
        "bound over {lu_solve, lu_factor, matrix_inverse, matrix_determinant, matrix_pivot} x {2x2, 3x3 without swaps, "
        "3x3 with swaps} + matrix_identity(1..4), state = contents of the memoised identities. "
        "non-trivial = non-singular matrix with a non-zero off-diagonal entry, or a history of length >= 2")
ASSUMPTIONS = [
    "the property constrains results only: an ArithmeticError/ValueError/GeomdlException from lu_solve, lu_factor, "
    "matrix_inverse, matrix_determinant on a general matrix is not a violation (it is one for lu_solve on the strictly "
    "diagonally dominant and collocation families)",
    "singular matrices (decided by exact rational elimination) are only used for matrix_pivot",
    "lu_decomposition is judged (L unit lower, U upper, LU = A) only where exact Doolittle elimination without row "
    "exchanges meets no zero pivot, i.e. where the factorisation exists, with the classical backward-error scale "
    "max|A| * max(1, growth), growth = max|L||U| / max|A| of the exact factorisation",
    "relative tolerance 1e-7 w.r.t. the largest entry of the exact solution / inverse / determinant; helpers 1e-12; "
    "structural facts (0/1 permutation entries, row-permuted matrix, sign, binomial coefficients) exact",
    "linspace is judged on non-degenerate intervals |stop-start| > 1e-7; frange only where (stop-start)/step is a dyadic "
    "exact integer (its behaviour for other steps is not fixed by the property)",
    "hidden module state = functools.lru_cache wrappers found by introspection of geomdl.*; observable through matrix_identity(n)",
]
TOL = 1e-7
HTOL = 1e-12
ALLOWED_EXC = (ArithmeticError, ValueError)        # + GeomdlException, bound in _lib()
MUST_RETURN = ('diagdom', 'collocation')


def bounds(tier):
    return dict(
        quick=dict(exhaustive='n=1,2 over {-1,0,1,2}; n=3 over {-1,0,1} (19683); n=4 bordered, inner block over {0,1,2} (19683)', families='n=4..8: 10 diagdom variants x '
                   '(identity + 6 row permutations), 1/(i+j+1)+cI c in {1,2} n=1..8 (+6 permutations)',
                   collocation='Greville: K(p,2,4) p=1..3, n<=8; averaging: p=1..3, n=p+1..8, 3 parameter alphabets',
                   helpers='vectors {-1,0,1,2}^d d<=3 all pairs; 2x2 products over {-1,0,1}; binomial 0..12',
                   history_depth=2),
        thorough=dict(exhaustive='n=1,2 over {-1,0,1,2}; n=3 over {-1,0,1,2} (262144); n=4 bordered, inner block over {0,1,2} (19683)', families='n=4..8: 40 diagdom variants x '
                      '(identity + all 23 permutations n=4, 12 permutations n>=5), 1/(i+j+1)+cI c in {1,2,1/2,-3}',
                      collocation='Greville: K(p,3,8) p=1..3, K(p,3,4) p=4,5, n<=8; averaging: p=1..5, n=p+1..8, 3 parameter alphabets',
                      helpers='vectors {-1,0,1,2}^d d<=3 all pairs; 2x2 products over {-1,0,1,2}; binomial 0..20',
                      history_depth=3))[tier]


# ----------------------------------------------------------------------------------------
# library access, pristine module state
# ----------------------------------------------------------------------------------------

_LIB = {}


def _lib():
    if not _LIB:
        from geomdl import linalg
        from geomdl.exceptions import GeomdlException
        _LIB['linalg'] = linalg
        _LIB['G'] = GeomdlException
        _LIB['allowed'] = ALLOWED_EXC + (GeomdlException,)
        wr = []
        for name, mod in list(sys.modules.items()):
            if name.startswith('geomdl') and mod is not None:
                for attr in list(vars(mod).values()):
                    cc = getattr(attr, 'cache_clear', None)
                    if cc is not None and callable(cc) and cc not in wr:
                        wr.append(cc)
        _LIB['clear'] = wr
    return _LIB['linalg']


def pristine():
    """same effect as core.clear_lru_caches(), wrappers collected once per process (E1 calls it ~10 times per matrix)"""
    _lib()
    for cc in _LIB['clear']:
        cc()


# ----------------------------------------------------------------------------------------
# exact helpers
# ----------------------------------------------------------------------------------------

def exact(M):
    return [[F(x) for x in row] for row in M]


def apriori_pivot(Af):
    """exact simulation of column-wise 'largest entry on or below the diagonal' row exchanges performed on the matrix
    itself (no elimination): returns (perm, number of exchanges, permuted matrix)"""
    n = len(Af)
    mp = [list(r) for r in Af]
    perm = list(range(n))
    swaps = 0
    for j in range(n):
        row, amax = j, 0
        for i in range(j, n):
            if abs(mp[i][j]) > amax:
                amax, row = abs(mp[i][j]), i
        if row != j:
            mp[j], mp[row] = mp[row], mp[j]
            perm[j], perm[row] = perm[row], perm[j]
            swaps += 1
    return perm, swaps, mp


def parity(perm):
    s = 1
    for i in range(len(perm)):
        for j in range(i + 1, len(perm)):
            if perm[i] > perm[j]:
                s = -s
    return s


def unit_block(n):
    return [[1.0 if i == j else 0.0 for j in range(n)] for i in range(n)]


def coded_block(n):
    return [[float(7 * i + 1), float(i * i - 3), float(2 * i - 5 + (i % 3) * i)] for i in range(n)]


def _maxabs(M):
    return max([abs(x) for row in M for x in row] or [F(0)])


def rel_close(ctx, obligation, obs, exp, tol, case, feats, scale=None):
    """|obs - exp| <= tol * max|exp| entrywise (matrix-wide scale, no absolute floor); shape mismatch = violation"""
    ok, worst = True, 0.0
    try:
        rows_o = [list(r) if isinstance(r, (list, tuple)) else [r] for r in obs]
        rows_e = [list(r) if isinstance(r, (list, tuple)) else [r] for r in exp]
        sc = F(scale) if scale is not None else _maxabs([[F(x) for x in r] for r in rows_e])
        if sc == 0:
            sc = F(1)
        if len(rows_o) != len(rows_e) or any(len(a) != len(b) for a, b in zip(rows_o, rows_e)):
            ok, worst = False, float('inf')
        else:
            for ro, re_ in zip(rows_o, rows_e):
                for o, e in zip(ro, re_):
                    if isinstance(o, bool) or not isinstance(o, (int, float)) or o != o or o in (float('inf'), float('-inf')):
                        ok, worst = False, float('inf')
                        continue
                    d = float(abs(F(o) - F(e)) / sc)
                    worst = max(worst, d)
                    if d > tol:
                        ok = False
    except TypeError:
        ok, worst = False, float('inf')
    if worst != float('inf') and worst > ctx.maxdisc[obligation]:
        ctx.maxdisc[obligation] = worst
    return ctx.check(obligation, ok, case, feats, exp, obs)


def doolittle_exact(Af):
    """exact L, U of elimination without row exchanges, or None where it meets a zero pivot"""
    n = len(Af)
    U = [list(r) for r in Af]
    Lm = [[F(int(i == j)) for j in range(n)] for i in range(n)]
    for c in range(n):
        if U[c][c] == 0:
            return None
        for r in range(c + 1, n):
            m = U[r][c] / U[c][c]
            Lm[r][c] = m
            if m != 0:
                U[r] = [x - m * y for x, y in zip(U[r], U[c])]
    return Lm, U


def lu_growth(Af):
    """max|L||U| / max|A| of the exact factorisation without row exchanges (None: does not exist); the classical
    backward-error bound of Doolittle elimination is n*eps*|L||U|, so this is the factor by which plain LU may
    legitimately lose accuracy"""
    lu = doolittle_exact(Af)
    if lu is None:
        return None
    Lm, U = lu
    n = len(Af)
    g = max(sum(abs(Lm[i][k]) * abs(U[k][j]) for k in range(n)) for i in range(n) for j in range(n))
    return g / max(_maxabs(Af), F(1, 10 ** 300))


def float_plain_lu_zero_pivot(Af):
    """Doolittle elimination without row exchanges, carried out in floating point in the operation order of the pinned
    geomdl._linalg.doolittle (sums over j < i, then one division), meets a pivot that is exactly 0.0.  Only used as a FEATURE that
    delimits the known finding F-C16-lu-solve-breakdown: with an exactly zero pivot the pinned lu_solve raises (accepted); the
    finding is about the other breakdowns, where rounding leaves a tiny non-zero pivot and a wrong solution is returned."""
    a = [[float(x) for x in r] for r in Af]
    n = len(a)
    u = [[0.0] * n for _ in range(n)]
    l = [[0.0] * n for _ in range(n)]
    for i in range(n):
        for k in range(i, n):
            u[i][k] = float(a[i][k] - sum([l[i][j] * u[j][k] for j in range(0, i)]))
            if i == k:
                l[i][i] = 1.0
            else:
                l[k][i] = float(a[k][i] - sum([l[k][j] * u[j][i] for j in range(0, i)]))
                try:
                    l[k][i] /= float(u[i][i])
                except ZeroDivisionError:
                    l[k][i] = 0.0
    return any(u[i][i] == 0.0 for i in range(n))


def matrix_features(Af, family, singular):
    perm, swaps, mp = apriori_pivot(Af)
    g, gp = lu_growth(Af), lu_growth(mp)
    assert (g is None) == R.needs_row_swap_doolittle(Af), "oracle disagreement on the existence of plain LU"
    return dict(n=len(Af), family=family, singular=singular,
                row_swaps_needed=g is None,
                pivot_swaps=swaps,
                zero_pivot_after_pivoting=gp is None,
                plain_lu_growth_log10=None if g is None else round(math.log10(max(float(g), 1.0)), 1),
                pivoted_lu_growth_log10=None if gp is None else round(math.log10(max(float(gp), 1.0)), 1),
                plain_lu_unstable=g is not None and g > 10 ** 6,
                pivoted_lu_unstable=gp is not None and gp > 10 ** 6,
                plain_lu_breaks_down=g is None or g > 10 ** 6,
                plain_lu_float_zero_pivot=float_plain_lu_zero_pivot(Af),
                pivoted_lu_breaks_down=gp is None or gp > 10 ** 6,
                integer=all(x.denominator == 1 for r in Af for x in r))


# ----------------------------------------------------------------------------------------
# families
# ----------------------------------------------------------------------------------------

def diagdom(n, k):
    """coded strictly (row) diagonally dominant matrix, variant k: k % 3 = dense / tridiagonal / sparse,
    (k // 3) % 3 = scale 1, 1/2, 1/3 (the last makes the entries inexact floats), odd k has negative diagonal entries"""
    M = [[0.0] * n for _ in range(n)]
    for i in range(n):
        for j in range(n):
            if i == j:
                continue
            v = ((3 * i + 5 * j + 2 * k + i * j) % 7) - 3
            if k % 3 == 1 and abs(i - j) > 1:
                v = 0
            if k % 3 == 2 and (i + j + k) % 3 == 0:
                v = 0
            M[i][j] = float(v)
        d = sum(abs(x) for x in M[i]) + 1 + (i + k) % 3
        if k % 2 == 1 and (i + k) % 4 == 0:
            d = -d
        M[i][i] = float(d)
    s = [1.0, 0.5, 1.0 / 3.0][(k // 3) % 3]
    if s != 1.0:
        M = [[x * s for x in row] for row in M]
    return M


def hilbert_plus(n, c):
    return [[1.0 / (i + j + 1) + (c if i == j else 0.0) for j in range(n)] for i in range(n)]


def row_perms(n, tier):
    ident = list(range(n))
    if n < 2:
        return []
    if tier == 'thorough' and n <= 4:
        return [list(p) for p in itertools.permutations(range(n)) if list(p) != ident]
    out = []

    def add(p):
        if p != ident and p not in out:
            out.append(p)
    add(ident[::-1])
    add(ident[1:] + ident[:1])
    sw = list(ident); sw[0], sw[1] = sw[1], sw[0]; add(sw)
    sw = list(ident); sw[0], sw[-1] = sw[-1], sw[0]; add(sw)
    sw = list(ident); sw[-2], sw[-1] = sw[-1], sw[-2]; add(sw)
    add(ident[0::2] + ident[1::2])
    if tier == 'thorough':
        add(ident[2:] + ident[:2])
        add(ident[-1:] + ident[:-1])
        if n > 2:
            sw = list(ident); sw[1], sw[2] = sw[2], sw[1]; add(sw)
        add(ident[1::2] + ident[0::2])
        add(sorted(ident, key=lambda i: (i * 3) % n if n % 3 else (i * 5) % n))
        add([ident[n // 2]] + ident[:n // 2] + ident[n // 2 + 1:])
    return out


def param_alphabet(name, n):
    if name == 'uniform':
        return [F(i, n - 1) for i in range(n)]
    if name == 'square':
        return [F(i * i, (n - 1) * (n - 1)) for i in range(n)]
    if name == 'chord':
        gaps = [1 + (i * i) % 3 for i in range(n - 1)]
        tot = sum(gaps)
        return [F(sum(gaps[:i]), tot) for i in range(n)]
    raise ValueError(name)


def collocation_matrix(case):
    """(float matrix, description) built with the exact basis functions"""
    p = case['p']
    if case['params'] == 'greville':
        kv = [float(x) for x in case['kv']]
        U = tuple(F(x) for x in kv)
        n = len(U) - p - 1
        prm = [F(float(sum(U[i + 1:i + p + 1]) / p)) for i in range(n)]
    else:
        n = case['n']
        prm = [F(float(u)) for u in param_alphabet(case['uk'], n)]
        # averaging, The NURBS Book eq. 9.8
        kv = [0.0] * (p + 1) + [float(sum(prm[i + 1:i + p + 1]) / p) for i in range(n - p - 1)] + [1.0] * (p + 1)
        U = tuple(F(x) for x in kv)
    M = [[0.0] * n for _ in range(n)]
    for i, u in enumerate(prm):
        s, rows = R.basis_values(p, U, u, 0)
        for j in range(p + 1):
            M[i][s - p + j] = float(rows[0][j])
    return M


# ----------------------------------------------------------------------------------------
# E2 alphabet
# ----------------------------------------------------------------------------------------

H_MATS = {
    'm2': [[1.0, 2.0], [3.0, 4.0]],                                   # pivoting exchanges the rows
    'm3': [[4.0, 1.0, 0.0], [1.0, 5.0, 2.0], [0.0, 1.0, 3.0]],         # no exchange
    'm3s': [[1.0, 2.0, 0.0], [3.0, 1.0, 1.0], [2.0, 5.0, 4.0]],        # two exchanges, plain LU exists as well
    # beyond the exhaustively enumerated sizes: exchanges needed, all leading minors non-zero (plain LU exists as well)
    'm5s': [[1.0, 2.0, 0.0, 0.0, 1.0], [3.0, 1.0, 1.0, 0.0, 0.0], [0.0, 2.0, 1.0, 3.0, 0.0], [2.0, 0.0, 4.0, 1.0, 1.0],
            [0.0, 1.0, 0.0, 2.0, 5.0]],
    'm6s': [[1.0, 2.0, 0.0, 0.0, 1.0, 0.0], [3.0, 1.0, 1.0, 0.0, 0.0, 2.0], [0.0, 2.0, 1.0, 3.0, 0.0, 0.0],
            [2.0, 0.0, 4.0, 1.0, 1.0, 0.0], [0.0, 1.0, 0.0, 2.0, 5.0, 1.0], [1.0, 0.0, 0.0, 6.0, 0.0, 2.0]],
}
H_RHS = {k: [[float(i + 1), float(3 - 2 * i)] for i in range(len(m))] for k, m in H_MATS.items()}
H_ROUTINES = ['lu_solve', 'lu_factor', 'matrix_inverse', 'matrix_determinant', 'matrix_pivot']
H_OPS = ([[r, k] for k in ('m2', 'm3', 'm3s', 'm5s', 'm6s') for r in H_ROUTINES] +
         [['matrix_identity', n] for n in (1, 2, 3, 4, 5, 6)])
USES_PIVOT = ('lu_factor', 'matrix_inverse', 'matrix_determinant', 'matrix_pivot')


def _norm(x):
    if isinstance(x, (list, tuple)):
        return [_norm(v) for v in x]
    return x


def h_call(op):
    """one alphabet call with fresh deep copies; returns (outcome, args unchanged?)"""
    L = _lib()
    r, key = op
    if r == 'matrix_identity':
        try:
            return ['ok', copy.deepcopy(_norm(L.matrix_identity(key)))], True
        except Exception as e:
            return ['exc', type(e).__name__], True
    a0, b0 = H_MATS[key], H_RHS[key]
    a, b = copy.deepcopy(a0), copy.deepcopy(b0)
    try:
        if r in ('lu_solve', 'lu_factor'):
            res = getattr(L, r)(a, b)
        elif r == 'matrix_pivot':
            res = L.matrix_pivot(a, sign=True)
        else:
            res = getattr(L, r)(a)
        out = ['ok', copy.deepcopy(_norm(res))]
    except Exception as e:
        out = ['exc', type(e).__name__]
    return out, (a == a0 and b == b0)


def h_run(ops):
    """replay a history from the pristine module state; returns outcomes of every call, unchanged flags, identity probe"""
    core.clear_lru_caches()
    outs, unch = [], []
    for op in ops:
        o, u = h_call(op)
        outs.append(o)
        unch.append(u)
    L = _lib()
    probe = [copy.deepcopy(_norm(L.matrix_identity(n))) for n in (1, 2, 3, 4)]
    return outs, unch, probe


_PRISTINE = {}


def h_pristine(op):
    k = repr(op)
    if k not in _PRISTINE:
        core.clear_lru_caches()
        _PRISTINE[k] = h_call(op)[0]
    return _PRISTINE[k]


# ----------------------------------------------------------------------------------------
# cases
# ----------------------------------------------------------------------------------------

def gen_cases(tier, seed):
    q = tier == 'quick'
    cases = []
    # --- helpers
    for part in ('binomial', 'linspace', 'frange', 'vectors2', 'vectors3', 'vectorsN', 'matrices', 'matmul2'):
        cases.append(dict(kind='helpers', part=part))
    # --- histories (E2): one case per first call
    depth = 2 if q else 3
    for op in H_OPS:
        cases.append(dict(kind='history', first=op, depth=depth))
    # --- exhaustive small matrices
    for n in (2, 3, 4):
        for k in (0, 1):
            cases.append(dict(kind='inplace', n=n, k=k))
    for n in (1, 2, 3, 4, 6):
        for k in (0, 1):
            for sc in ('small', 'large', 'mixed'):
                cases.append(dict(kind='matrix', family='diagdom', n=n, k=k, perm=None, scale=sc))
    cases.append(dict(kind='int', n=1, vals=[-1, 0, 1, 2], prefix=[]))
    for a in [-1, 0, 1, 2]:
        cases.append(dict(kind='int', n=2, vals=[-1, 0, 1, 2], prefix=[a]))
    vals = [-1, 0, 1] if q else [-1, 0, 1, 2]
    for pre in itertools.product(vals, repeat=4):
        cases.append(dict(kind='int', n=3, vals=vals, prefix=list(pre)))
    # --- 4 x 4 integer matrices with a fixed border (first row 3 1 1 0, first column 3 1 1 1: the divisions by 3 make
    #     the elimination inexact) and every inner 3 x 3 block over {0,1,2}
    for pre in itertools.product([0, 1, 2], repeat=4):
        cases.append(dict(kind='bordered4', vals=[0, 1, 2], prefix=list(pre)))
    # --- structured families
    for n in range(1, 9):
        for c in ([1.0, 2.0] if q else [1.0, 2.0, 0.5, -3.0]):
            cases.append(dict(kind='matrix', family='rational', n=n, c=c, perm=None))
            for pm in row_perms(n, tier):
                cases.append(dict(kind='matrix', family='rational_permuted', n=n, c=c, perm=pm))
    for n in range(4, 9):
        for k in (list(range(9)) + [12] if q else range(40)):
            cases.append(dict(kind='matrix', family='diagdom', n=n, k=k, perm=None))
            for pm in row_perms(n, tier):
                cases.append(dict(kind='matrix', family='diagdom_permuted', n=n, k=k, perm=pm))
    # --- nearly triangular: a healthy diagonal and non-zero but negligible entries below it (a pivot search that prefers them
    #     to the diagonal destroys the solution)
    for n in (2, 3, 4, 6):
        for eps in (1e-20, 1e-12, 1e-8):
            for k in (0, 1):
                cases.append(dict(kind='matrix', family='near_triangular', n=n, k=k, eps=eps, perm=None))
    # --- collocation matrices
    plan = [(1, 2, 4), (2, 2, 4), (3, 2, 4)] if q else [(1, 3, 8), (2, 3, 8), (3, 3, 8), (4, 3, 4), (5, 3, 4)]
    for p, B, G in plan:
        for kv in A.clamped_kvs(p, B, G):
            if len(kv) - p - 1 <= 8:
                cases.append(dict(kind='colloc', family='collocation', p=p, kv=kv, params='greville'))
    for p in range(1, 4 if q else 6):
        for n in range(p + 1, 9):
            for uk in ('uniform', 'chord', 'square'):
                cases.append(dict(kind='colloc', family='collocation', p=p, n=n, uk=uk, params='averaging'))
    return cases


def case_weight(c):
    k = c['kind']
    if k == 'int':
        return 40.0 * len(c['vals']) ** (c['n'] * c['n'] - len(c['prefix']))
    if k == 'bordered4':
        return 60.0 * len(c['vals']) ** (9 - len(c['prefix']))
    if k == 'history':
        return 30.0 * len(H_OPS) ** (c['depth'] - 1)
    if k == 'helpers':
        return 20000
    n = c.get('n') or (len(c['kv']) - c['p'] - 1)
    return 10.0 * n ** 3


def run_case(case, ctx):
    _lib()
    k = case['kind']
    if k == 'int':
        n, vals, pre = case['n'], case['vals'], case['prefix']
        for rest in itertools.product(vals, repeat=n * n - len(pre)):
            flat = list(pre) + list(rest)
            M = [[float(x) for x in flat[i * n:(i + 1) * n]] for i in range(n)]
            judge_matrix(M, 'int', ctx, dict(kind='matrix', family='int', n=n, M=M))
    elif k == 'bordered4':
        vals, pre = case['vals'], case['prefix']
        for rest in itertools.product(vals, repeat=9 - len(pre)):
            b = list(pre) + list(rest)
            M = [[3.0, 1.0, 1.0, 0.0]] + [[1.0] + [float(x) for x in b[3 * i:3 * i + 3]] for i in range(3)]
            judge_matrix(M, 'int4_bordered', ctx, dict(kind='matrix', family='int4_bordered', n=4, M=M))
    elif k == 'matrix':
        if 'M' in case:
            M = [[float(x) for x in row] for row in case['M']]
        else:
            if case['family'] == 'near_triangular':
                n_, e_ = case['n'], case['eps']
                base = [[(float(1 + (i + 2 * j + case['k']) % 3) if j > i else (float(1 + (i + case['k']) % 2) if i == j else e_ * (1 + (i + j) % 2)))
                         for j in range(n_)] for i in range(n_)]
            else:
                base = diagdom(case['n'], case['k']) if case['family'].startswith('diagdom') else hilbert_plus(case['n'], case['c'])
            M = [list(base[i]) for i in case['perm']] if case.get('perm') else base
            if case.get('scale'):
                # badly scaled but perfectly regular matrices (powers of two: the scaling itself is exact)
                n_ = len(M)
                sc = {'small': [2.0 ** -30] * n_, 'large': [2.0 ** 30] * n_,
                      'mixed': [2.0 ** (-30 if j % 2 == 0 else 30) for j in range(n_)]}[case['scale']]
                M = [[M[i][j] * sc[j] for j in range(n_)] for i in range(n_)]
        judge_matrix(M, case['family'], ctx, dict(case, M=M), only=case.get('only'))
    elif k == 'colloc':
        M = collocation_matrix(case)
        judge_matrix(M, 'collocation', ctx, dict(case, M=M), only=case.get('only'))
    elif k == 'inplace':
        _inplace_reuse(case, ctx)
    elif k == 'history':
        explore_histories(case, ctx)
    elif k == 'helpers':
        HELPERS[case['part']](case, ctx)
    else:
        raise ValueError(k)


def _inplace_reuse(case, ctx):
    """the SAME matrix object is passed twice with one entry changed in place in between: the second answer must be
    the answer for the matrix as it is now (no memo keyed by object identity / first contents)"""
    la = _lib()
    n = case['n']
    base = diagdom(n, case['k'])
    b = [[float(i + 1), float(2 - i)] for i in range(n)]
    for routine in ('lu_solve', 'lu_factor', 'lu_decomposition', 'matrix_inverse', 'matrix_determinant'):
        for i in range(n):
            for j in range(n):
                if 'only' in case and case['only'] != [routine, i, j]:
                    continue
                pristine()
                M = [list(r) for r in base]
                feats = dict(n=n, family='diagdom', routine=routine, edit=[i, j], history='inplace_edit')
                rc = dict(case, only=[routine, i, j])

                def call():
                    if routine in ('lu_solve', 'lu_factor'):
                        return getattr(la, routine)(M, [list(r) for r in b])
                    return getattr(la, routine)(M)
                try:
                    call()
                    M[i][j] += (1.0 if i == j else 0.25)       # stays strictly diagonally dominant
                    res = call()
                except Exception as e:
                    ctx.check('C16.history.inplace_edit_seen', False, rc, feats, 'a result', repr(e))
                    continue
                A = [[F(x) for x in r] for r in M]
                if routine in ('lu_solve', 'lu_factor'):
                    exp = R.solve_exact(A, [[F(x) for x in r] for r in b])
                elif routine == 'matrix_inverse':
                    exp = R.solve_exact(A, [[F(1 if r == c else 0) for c in range(n)] for r in range(n)])
                elif routine == 'matrix_determinant':
                    exp = R.det_gauss(A)
                else:
                    L, U = res
                    res = R.matmul(L, U)
                    exp = A
                ctx.close('C16.history.inplace_edit_seen', res, exp, 1e-9, 1.0, rc, feats)


# ----------------------------------------------------------------------------------------
# E1: one matrix, every routine
# ----------------------------------------------------------------------------------------

def _attempt(fn, *args):
    """('ok', result) | ('exc', exception) for the exceptions the property tolerates; anything else escapes"""
    try:
        return 'ok', fn(*args)
    except _LIB['allowed'] as e:
        return 'exc', e


def judge_matrix(M, family, ctx, rc, only=None):
    L = _lib()
    n = len(M)
    Af = exact(M)
    det = R.det_gauss(Af)
    if n <= 5:
        assert det == R.det_leibniz(Af), "oracle disagreement det_gauss/det_leibniz"
    singular = det == 0
    f = matrix_features(Af, family, singular)
    offdiag = any(M[i][j] != 0 for i in range(n) for j in range(n) if i != j)
    ctx.state(dict(M=M), nontrivial=(not singular) and offdiag)
    ctx.extra['matrices_singular' if singular else 'matrices_nonsingular'] += 1

    def want(r):
        return only is None or only == r

    # ---- matrix_pivot (all matrices, singular ones too)
    if want('matrix_pivot'):
        fr_ = dict(f, routine='matrix_pivot')
        a = copy.deepcopy(M)
        pristine()
        res = L.matrix_pivot(a, sign=True)
        res = copy.deepcopy(_norm(res))
        ctx.check('C16.matrix_pivot.input_unchanged', a == M, rc, fr_, M, a)
        if ctx.check('C16.matrix_pivot.shape', isinstance(res, list) and len(res) == 3, rc, fr_, 3, res):
            mp, P, sign = res
            perm = _perm_of(P, n)
            if ctx.check('C16.matrix_pivot.permutation', perm is not None, rc, fr_, '0/1 permutation matrix', P):
                ctx.check('C16.matrix_pivot.product', mp == [M[perm[i]] for i in range(n)], rc, fr_,
                          [M[perm[i]] for i in range(n)], mp, 'returned matrix must be exactly P*M')
                ctx.check('C16.matrix_pivot.sign', sign == float(parity(perm)), rc, fr_, parity(perm), sign)
                ctx.outcome(('pivot', tuple(perm)))
            pristine()
            res2 = copy.deepcopy(_norm(L.matrix_pivot(copy.deepcopy(M))))
            ctx.check('C16.matrix_pivot.sign_flag', res2 == [mp, P], rc, fr_, [mp, P], res2,
                      'sign=False must return the same pair')
    if singular:
        return
    Ainv = R.solve_exact(Af, exact(unit_block(n)))
    # ---- solvers
    for routine in ('lu_solve', 'lu_factor'):
        if not want(routine):
            continue
        fr_ = dict(f, routine=routine)
        for bname, B in (('unit', unit_block(n)), ('coded', coded_block(n))):
            fb = dict(fr_, rhs=bname)
            a, b = copy.deepcopy(M), copy.deepcopy(B)
            pristine()
            st, X = _attempt(getattr(L, routine), a, b)
            ctx.check('C16.%s.input_unchanged' % routine, a == M and b == B, rc, fb, [M, B], [a, b])
            if routine == 'lu_solve' and family in MUST_RETURN:
                ctx.check('C16.lu_solve.returns', st == 'ok', rc, fb, 'a solution', repr(X) if st == 'exc' else None,
                          'plain LU solver must return for strictly diagonally dominant / collocation matrices')
            ctx.extra['%s_%s' % (routine, 'returned' if st == 'ok' else 'raised')] += 1
            if st != 'ok':
                ctx.outcome((routine, type(X).__name__))
                continue
            Xe = Ainv if bname == 'unit' else R.matmul(Ainv, exact(B))
            rel_close(ctx, 'C16.%s.solves' % routine, X, Xe, TOL, rc, fb)
    # ---- inverse
    if want('matrix_inverse'):
        fr_ = dict(f, routine='matrix_inverse')
        a = copy.deepcopy(M)
        pristine()
        st, X = _attempt(L.matrix_inverse, a)
        ctx.check('C16.matrix_inverse.input_unchanged', a == M, rc, fr_, M, a)
        ctx.extra['matrix_inverse_%s' % ('returned' if st == 'ok' else 'raised')] += 1
        if st == 'ok':
            if rel_close(ctx, 'C16.matrix_inverse.inverse', X, Ainv, TOL, rc, fr_):
                prod = R.matmul(Af, exact(X))
                rel_close(ctx, 'C16.matrix_inverse.product', [[float(x) for x in r] for r in prod], exact(unit_block(n)),
                          TOL, rc, fr_, scale=max(F(1), n * _maxabs(Af) * _maxabs(Ainv)))
        else:
            ctx.outcome(('inverse', type(X).__name__))
    # ---- determinant
    if want('matrix_determinant'):
        fr_ = dict(f, routine='matrix_determinant')
        a = copy.deepcopy(M)
        pristine()
        st, d = _attempt(L.matrix_determinant, a)
        ctx.check('C16.matrix_determinant.input_unchanged', a == M, rc, fr_, M, a)
        ctx.extra['matrix_determinant_%s' % ('returned' if st == 'ok' else 'raised')] += 1
        if st == 'ok':
            rel_close(ctx, 'C16.matrix_determinant.value', [[d]], [[det]], TOL, rc, fr_)
            ctx.outcome(('det', round(float(det), 9)))
    # ---- plain LU decomposition, where it exists
    if want('lu_decomposition') and not f['row_swaps_needed']:
        fr_ = dict(f, routine='lu_decomposition')
        a = copy.deepcopy(M)
        pristine()
        res = _norm(L.lu_decomposition(a))
        ctx.check('C16.lu_decomposition.input_unchanged', a == M, rc, fr_, M, a)
        if ctx.check('C16.lu_decomposition.shape', isinstance(res, list) and len(res) == 2 and
                     all(_is_square(x, n) for x in res), rc, fr_, '(L, U) n x n', res):
            Lm, Um = res
            tri = all(Lm[i][i] == 1.0 and all(Lm[i][j] == 0.0 for j in range(i + 1, n)) and
                      all(Um[i][j] == 0.0 for j in range(i)) for i in range(n))
            ctx.check('C16.lu_decomposition.triangular', tri, rc, fr_, 'L unit lower, U upper triangular', res)
            prod = R.matmul(exact(Lm), exact(Um))
            # backward-error scale of elimination without row exchanges: |L||U| of the exact factorisation
            rel_close(ctx, 'C16.lu_decomposition.product', [[float(x) for x in r] for r in prod], Af, TOL, rc, fr_,
                      scale=_maxabs(Af) * max(F(1), lu_growth(Af)))
    # ---- substitutions on the triangles of M itself
    if want('substitution') and all(M[i][i] != 0 for i in range(n)):
        fr_ = dict(f, routine='substitution')
        lower = [[M[i][j] if j <= i else 0.0 for j in range(n)] for i in range(n)]
        upper = [[M[i][j] if j >= i else 0.0 for j in range(n)] for i in range(n)]
        bvec = [row[0] + 0.5 * row[1] for row in coded_block(n)]
        for name, T in (('forward_substitution', lower), ('backward_substitution', upper)):
            t, b = copy.deepcopy(T), list(bvec)
            st, y = _attempt(getattr(L, name), t, b)
            ctx.check('C16.%s.input_unchanged' % name, t == T and b == bvec, rc, fr_, [T, bvec], [t, b])
            if st == 'ok':
                ye = R.solve_exact(exact(T), [[F(x)] for x in bvec])
                rel_close(ctx, 'C16.%s.solves' % name, y, [r[0] for r in ye], TOL, rc, fr_)
            else:
                ctx.check('C16.%s.solves' % name, False, rc, fr_, 'a solution', repr(y),
                          'triangular system with non-zero diagonal must be solved')


def _is_square(x, n):
    return isinstance(x, list) and len(x) == n and all(isinstance(r, list) and len(r) == n for r in x)


def _perm_of(P, n):
    """perm with P[i][perm[i]] == 1 if P is a genuine 0/1 permutation matrix, else None"""
    if not _is_square(P, n):
        return None
    perm = []
    for row in P:
        if any(not isinstance(x, (int, float)) or isinstance(x, bool) or x not in (0, 1) for x in row):
            return None
        if sum(1 for x in row if x == 1) != 1:
            return None
        perm.append([j for j, x in enumerate(row) if x == 1][0])
    return perm if sorted(perm) == list(range(n)) else None


# ----------------------------------------------------------------------------------------
# E2: histories
# ----------------------------------------------------------------------------------------

def _op_n(op):
    return op[1] if op[0] == 'matrix_identity' else len(H_MATS[op[1]])


def _swaps_in(op):
    """does this call perform row exchanges inside the pivoting step (harness-computed, exact)"""
    if op[0] not in USES_PIVOT:
        return False
    return apriori_pivot(exact(H_MATS[op[1]]))[1] > 0


def judge_history(ops, ctx, twice=False):
    outs, unch, probe = h_run(ops)
    if twice:
        again = h_run(ops)
        assert (outs, unch, probe) == again, "history replay is not deterministic: %r" % (ops,)
    last = ops[-1]
    n = _op_n(last)
    prior_swap = [_op_n(o) for o in ops[:-1] if _swaps_in(o)]
    feats = dict(routine=last[0], matrix=last[1], n=n, depth=len(ops), prior_routines=[o[0] for o in ops[:-1]],
                 prior_pivot_swap_same_n=n in prior_swap, prior_pivot_swap=bool(prior_swap),
                 uses_pivot=last[0] in USES_PIVOT)
    rc = dict(kind='history', ops=[list(o) for o in ops])
    ctx.extra['e2_histories'] += 1
    ctx.extra['e2_transitions'] += len(ops)
    exp = h_pristine(last)
    ctx.check('C16.history.same_as_pristine', outs[-1] == exp, rc, feats, exp, outs[-1],
              'call result depends on the routines called before')
    ctx.check('C16.history.args_unchanged', unch[-1], rc, feats, 'arguments unchanged', None)
    all_swaps = [_op_n(o) for o in ops if _swaps_in(o)]
    for nn, got in zip((1, 2, 3, 4), probe):
        ctx.check('C16.history.identity_intact', got == unit_block(nn), rc,
                  dict(n=nn, depth=len(ops), routines=[o[0] for o in ops], pivot_swap_same_n=nn in all_swaps,
                       last_routine=last[0]),
                  unit_block(nn), got, 'matrix_identity(n) is not the identity after this history')
    ctx.state('E2:' + core.jhash(probe), nontrivial=len(ops) >= 2)
    ctx.outcome(('hist', core.jhash([outs[-1], probe])))
    return probe


def explore_histories(case, ctx):
    if 'ops' in case:                     # replay of one history
        judge_history([list(o) for o in case['ops']], ctx, twice=True)
        return
    depth = case['depth']
    frontier = [[list(case['first'])]]
    count = 0
    while frontier:                       # breadth first: shortest histories first
        hist = frontier.pop(0)
        judge_history(hist, ctx, twice=(count % 64 == 0))
        count += 1
        if len(hist) < depth:
            for op in H_OPS:
                frontier.append(hist + [list(op)])


# ----------------------------------------------------------------------------------------
# E1: helpers
# ----------------------------------------------------------------------------------------

def _try(fn, *args):
    """a helper call; an exception becomes the observed value of the obligation instead of a harness crash"""
    try:
        return fn(*args)
    except Exception as e:
        return e


def _hcheck(ctx, obligation, obs, exp, case, feats, tol=HTOL):
    """helper result against its exact definition: scalar, vector or matrix; scale max(1, max|exp|)"""
    if not isinstance(exp, (list, tuple)):
        obs, exp = [obs], [exp]
    rows = [list(e) if isinstance(e, (list, tuple)) else [e] for e in exp]
    return rel_close(ctx, obligation, obs, exp, tol, case, feats, scale=max(F(1), _maxabs([[F(x) for x in r] for r in rows])))


def _vectors(d, vals=(-1, 0, 1, 2)):
    return [list(map(float, v)) for v in itertools.product(vals, repeat=d)]


def _h_vectors(case, ctx, d):
    L = _lib()
    vs = case.get('vectors') or _vectors(d)
    pairs = case.get('pairs') or [(a, b) for a in vs for b in vs]
    f = dict(routine='vector', dim=d)
    for a, b in pairs:
        a, b = list(a), list(b)
        rc = dict(kind='helpers', part=case['part'], pairs=[[a, b]], vectors=[a])
        ea, eb = [F(x) for x in a], [F(x) for x in b]
        ctx.state(dict(v=[a, b]), nontrivial=any(a) and any(b))
        _hcheck(ctx, 'C16.vector_dot', _try(L.vector_dot, a, b), sum(x * y for x, y in zip(ea, eb)), rc, dict(f, routine='vector_dot'))
        if d in (2, 3):
            a3, b3 = (ea + [F(0)])[:3], (eb + [F(0)])[:3]
            cr = [a3[1] * b3[2] - a3[2] * b3[1], a3[2] * b3[0] - a3[0] * b3[2], a3[0] * b3[1] - a3[1] * b3[0]]
            _hcheck(ctx, 'C16.vector_cross', _try(L.vector_cross, a, b), cr, rc, dict(f, routine='vector_cross'))
        for c in (1.0, -1.0, 0.5, 2.0):
            _hcheck(ctx, 'C16.vector_sum', _try(L.vector_sum, a, b, c), [x + F(c) * y for x, y in zip(ea, eb)], rc,
                    dict(f, routine='vector_sum', coeff=c))
        _hcheck(ctx, 'C16.vector_sum', _try(L.vector_sum, a, b), [x + y for x, y in zip(ea, eb)], rc,
                dict(f, routine='vector_sum', coeff='default'))
        _hcheck(ctx, 'C16.vector_mean', _try(L.vector_mean, a, b, a), [(2 * x + y) / 3 for x, y in zip(ea, eb)], rc,
                dict(f, routine='vector_mean'))
        _hcheck(ctx, 'C16.vector_mean', _try(L.vector_mean, a, b), [(x + y) / 2 for x, y in zip(ea, eb)], rc,
                dict(f, routine='vector_mean'))
    for a in vs:
        a = list(a)
        rc = dict(kind='helpers', part=case['part'], vectors=[a], pairs=[[a, a]])
        ea = [F(x) for x in a]
        ss = sum(x * x for x in ea)
        for s in (2.0, -0.5, 0.0, 3.0):
            _hcheck(ctx, 'C16.vector_multiply', _try(L.vector_multiply, a, s), [x * F(s) for x in ea], rc,
                    dict(f, routine='vector_multiply'))
        mag = _try(L.vector_magnitude, a)
        fm = dict(f, routine='vector_magnitude')
        ctx.check('C16.vector_magnitude', isinstance(mag, float) and mag >= 0 and abs(F(mag) ** 2 - ss) <= F(1, 10 ** 12) * max(ss, 1),
                  rc, fm, math.sqrt(ss), mag)
        if ss > 0:
            un = _try(L.vector_normalize, a)
            fn_ = dict(f, routine='vector_normalize')
            ok = isinstance(un, list) and len(un) == d
            if ok:
                ok = abs(sum(F(x) ** 2 for x in un) - 1) <= F(1, 10 ** 12)
                # parallel and same direction: u * |a| = a
                ok = ok and all(abs(F(x) * F(math.sqrt(ss)) - y) <= F(1, 10 ** 12) * max(1, abs(y)) for x, y in zip(un, ea))
            ctx.check('C16.vector_normalize', ok, rc, fn_, [float(x) / math.sqrt(ss) for x in ea], un)


def _coded_matrix(r, c, k=0):
    return [[float(((3 * i + 5 * j + 2 * k + i * j) % 7) - 3 + (0.5 if (i + j + k) % 4 == 0 else 0.0)) for j in range(c)]
            for i in range(r)]


def _h_matrices(case, ctx):
    L = _lib()
    sizes = range(1, 5)
    for r in sizes:
        for c in sizes:
            M = _coded_matrix(r, c)
            f = dict(routine='matrix_transpose', rows=r, cols=c)
            rc = dict(case)
            ctx.state(dict(T=[r, c]), nontrivial=r != c)
            T = _try(L.matrix_transpose, copy.deepcopy(M))
            ctx.check('C16.matrix_transpose', T == [[M[i][j] for i in range(r)] for j in range(c)], rc, f,
                      [[M[i][j] for i in range(r)] for j in range(c)], T)
            for s in (2.0, -0.5, 0.0, 3):
                _hcheck(ctx, 'C16.matrix_scalar', _try(L.matrix_scalar, copy.deepcopy(M), s),
                        [[F(x) * F(s) for x in row] for row in M], rc, dict(f, routine='matrix_scalar', scalar=s))
            # matrix-vector
            v = [float(2 * j - 3 + (j * j) % 3) for j in range(c)]
            _hcheck(ctx, 'C16.matrix_multiply.vector', _try(L.matrix_multiply, copy.deepcopy(M), list(v)),
                    [sum(F(M[i][j]) * F(v[j]) for j in range(c)) for i in range(r)], rc,
                    dict(f, routine='matrix_multiply', form='vector'))
            for m in sizes:
                N = _coded_matrix(c, m, k=3)
                a, b = copy.deepcopy(M), copy.deepcopy(N)
                got = _try(L.matrix_multiply, a, b)
                ctx.check('C16.matrix_multiply.input_unchanged', a == M and b == N, rc, f, None, None)
                _hcheck(ctx, 'C16.matrix_multiply.matrix', got, R.matmul(M, N), rc,
                        dict(routine='matrix_multiply', form='matrix', rows=r, inner=c, cols=m))


def _h_matmul2(case, ctx):
    L = _lib()
    vals = [-1, 0, 1] if ctx.tier == 'quick' else [-1, 0, 1, 2]
    mats = [[[float(a), float(b)], [float(c), float(d)]] for a, b, c, d in itertools.product(vals, repeat=4)]
    pairs = case.get('pairs') or [(m1, m2) for m1 in mats for m2 in mats]
    f = dict(routine='matrix_multiply', form='matrix', rows=2, inner=2, cols=2)
    for m1, m2 in pairs:
        rc = dict(kind='helpers', part='matmul2', pairs=[[m1, m2]])
        got = _try(L.matrix_multiply, m1, m2)
        exp = [[m1[i][0] * m2[0][j] + m1[i][1] * m2[1][j] for j in range(2)] for i in range(2)]   # small integers: exact
        ctx.check('C16.matrix_multiply.matrix', got == exp, rc, f, exp, got)
    ctx.state(dict(matmul2=len(pairs)), nontrivial=True)


def _h_binomial(case, ctx):
    L = _lib()
    top = 12 if ctx.tier == 'quick' else 20
    pristine()
    for rnd in (0, 1):          # second round is served from the memo
        for k in range(top + 1):
            for i in range(top + 1):
                got = _try(L.binomial_coefficient, k, i)
                exp = math.factorial(k) // (math.factorial(i) * math.factorial(k - i)) if i <= k else 0
                ctx.state(dict(binom=[k, i]), nontrivial=0 < i < k)
                ctx.check('C16.binomial_coefficient', isinstance(got, float) and got == float(exp),
                          dict(case), dict(routine='binomial_coefficient', k=k, i=i, memoised=bool(rnd)), exp, got)


def _h_linspace(case, ctx):
    L = _lib()
    ends = [0.0, 1.0, -1.0, 0.25, 2.0, 10.0, -3.5, 1.0 / 3.0]
    nums = list(range(1, 13)) + [33, 101]
    for a in ends:
        for b in ends:
            if abs(a - b) <= 1e-7:
                continue
            for num in nums:
                got = _try(L.linspace, a, b, num)
                f = dict(routine='linspace', num=num, descending=b < a)
                rc = dict(case)
                ctx.state(dict(ls=[a, b, num]), nontrivial=num > 2)
                if not ctx.check('C16.linspace.length', isinstance(got, list) and len(got) == num, rc, f, num,
                                 len(got) if isinstance(got, list) else got):
                    continue
                exp = [F(a) + (F(b) - F(a)) * F(i, num - 1) for i in range(num)] if num > 1 else [F(a)]
                _hcheck(ctx, 'C16.linspace.values', got, exp, rc, dict(f, start=a, stop=b))
                ctx.check('C16.linspace.start', got[0] == a, rc, dict(f, start=a, stop=b), a, got[0])
    # integer arguments are accepted as well
    got = _try(L.linspace, 0, 1, 5)
    ctx.check('C16.linspace.values', got == [0.0, 0.25, 0.5, 0.75, 1.0], dict(case), dict(routine='linspace', num=5), None, got)


def _h_frange(case, ctx):
    L = _lib()
    for a in (0.0, 1.0, -2.0, 0.25):
        for step in (1.0, 0.5, 0.25, 0.125, 2.0):
            for cnt in range(1, 10):
                b = a + cnt * step
                got = _try(lambda: list(L.frange(a, b, step)))
                exp = [a + i * step for i in range(cnt + 1)]          # dyadic: exact
                ctx.state(dict(fr=[a, b, step]), nontrivial=cnt > 1)
                ctx.check('C16.frange', got == exp, dict(case), dict(routine='frange', start=a, stop=b, step=step), exp, got)
    got = _try(lambda: list(L.frange(0, 3)))
    ctx.check('C16.frange', got == [0.0, 1.0, 2.0, 3.0] and all(isinstance(x, float) for x in got), dict(case),
              dict(routine='frange', default_step=True), [0.0, 1.0, 2.0, 3.0], got)


def _h_vectorsN(case, ctx):
    if case.get('pairs'):                  # replay of one pair
        _h_vectors(case, ctx, len(case['pairs'][0][0]))
        return
    for d in (1, 4, 5):
        vs = [[float(((3 * i + 2 * k + i * k) % 7) - 3) + (0.25 if (i + k) % 3 == 0 else 0.0) for i in range(d)] for k in range(6)]
        _h_vectors(dict(case, vectors=vs), ctx, d)


HELPERS = dict(binomial=_h_binomial, linspace=_h_linspace, frange=_h_frange,
               vectors2=lambda c, x: _h_vectors(c, x, 2), vectors3=lambda c, x: _h_vectors(c, x, 3),
               vectorsN=_h_vectorsN, matrices=_h_matrices, matmul2=_h_matmul2)


# ----------------------------------------------------------------------------------------
# driver: adds the E2 figures to the evidence
# ----------------------------------------------------------------------------------------

def main(tier, seed, budget, procs):
    mod = sys.modules[__name__]
    ctx, info = core.run_cases(mod, tier, seed, budget, procs)
    e2_states = sum(1 for s in ctx.states if isinstance(s, str) and s.startswith('E2:'))
    extra = dict(e2=dict(states=e2_states, histories=ctx.extra.get('e2_histories', 0),
                         transitions=ctx.extra.get('e2_transitions', 0), alphabet=len(H_OPS),
                         depth=2 if tier == 'quick' else 3, frontier_exhausted_below_depth=not info.get('caps_hit'),
                         state='contents of matrix_identity(1..4) (the memoised results) after the history'),
                 e1=dict(states=len(ctx.states) - e2_states))
    return ctx, info, extra

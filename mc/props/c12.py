"""C12 - no stale derived state after any sequence of edits (explorer E2, the central explorer).

BFS over histories of public readers and mutators on BSpline/NURBS x Curve/Surface/Volume and on
Curve/Surface containers.  Oracle is differential: after every transition the object's *definition*
is read through its primary public representation, a fresh object is built from it through the
public API, and every reader must report the same value on both.  Deep-copy independence is judged
around every mutator in both directions.
"""
import copy
import time

from .. import alphabet as A
from .. import core
from .. import explorer as X
from .. import shapes as S

PROPERTY = "C12"
EXPLORERS = ['E2']
RULE = ("E2: breadth-first search over histories of public readers (ctrlpts, weights, ctrlptsw, ctrlpts2d, evalpts, bbox, "
        "sample_size/delta, tessellation vertices+faces, data) and mutators (degree, knot vector, control points in all "
        "three views, weights, sample_size, delta, insert/remove knot, refine, reverse, transpose, flip, in-place "
        "translate/rotate/scale, evaluate; containers: add, delta, sample_size, tessellate, element edit) from seed shapes "
        "of 6 spline classes + 2 container classes; states = canonical image of the whole __dict__ (definition + hidden "
        "caches) rebuilt by replaying the history on a fresh object; every state distinct by construction, non-trivial = "
        "reached by at least one mutator")
ASSUMPTIONS = [
    "a mutator call that raises an exception is a rejected edit: it is counted but neither judged nor expanded",
    "values read from getters are copied before being reused as arguments (aliasing with internal caches is outside the property)",
    "partial evaluate(start=, stop=) is documented to load evalpts with a segment and is not in the alphabet; trims and "
    "visualisation are not part of the property",
    "reading the definition (degree, knotvector, ctrlptsw/ctrlpts, sizes, delta) is side-effect free",
]
TOL = 1e-9


def bounds(tier):
    return dict(quick=dict(depth=dict(curve=3, surface=2, volume=2, container=3, sampling=3,
                                      dense=dict(curve=2, surface=2, volume=1)), seeds_per_class=1),
                thorough=dict(depth=dict(curve=4, surface=3, volume=3, container=4, sampling=4,
                                         dense=dict(curve=3, surface=2, volume=2)), seeds_per_class=2))[tier]


# ----------------------------------------------------------------------------------------
# seeds
# ----------------------------------------------------------------------------------------

def _seeds(kind, rational):
    w = 'coded' if rational else 'ones'
    if kind == 'curve':
        return [A.shape_desc([[0, 0, 0, 0.5, 1, 1, 1]], [2], rational, 3, 'coded', w),
                A.shape_desc([[0, 0, 0, 0, 0.25, 0.5, 1, 1, 1, 1]], [3], rational, 2, 'coded', w),
                A.shape_desc([[0, 0, 0, 1, 2, 2, 2]], [2], rational, 3, 'coded', w, normalize_kv=False)]
    if kind == 'surface':
        return [A.shape_desc([[0, 0, 0, 0.5, 1, 1, 1], [0, 0, 1, 1]], [2, 1], rational, 3, 'coded', w),
                A.shape_desc([[0, 0, 1, 1], [0, 0, 0, 0.5, 0.5, 1, 1, 1]], [1, 2], rational, 3, 'coded', w)]
    return [A.shape_desc([[0, 0, 1, 1], [0, 0, 0.5, 1, 1], [0, 0, 1, 1]], [1, 1, 1], rational, 3, 'coded', w),
            A.shape_desc([[0, 0, 0.5, 1, 1], [0, 0, 1, 1], [0, 0, 0, 0.5, 1, 1, 1]], [1, 1, 2], rational, 3, 'coded', w)]


def gen_cases(tier, seed):
    """one root case per system (judges all first operations) plus one case per first operation
    (explores every longer history starting with it) - the union is the complete BFS to `depth`"""
    core.bind_repo()
    b = bounds(tier)
    systems = []
    for kind in ('curve', 'surface', 'volume'):
        for rational in (False, True):
            for si in range(b['seeds_per_class']):
                systems.append(dict(mode='bfs', system='spline', kind=kind, rational=rational, seed_index=si,
                                    depth=b['depth'][kind]))
    # a curve that keeps its own knot range (normalize_kv=False): the domain is part of the derived state
    systems.append(dict(mode='bfs', system='spline', kind='curve', rational=False, seed_index=2, depth=b['depth']['curve']))
    # densely sampled shapes (17 and 20 samples per direction, more than 256 points in total)
    for kind, rational, si in (('curve', False, 1), ('curve', True, 0), ('surface', True, 0), ('surface', False, 0), ('volume', False, 0)):
        systems.append(dict(mode='bfs', system='spline', kind=kind, rational=rational, seed_index=si, dense=True,
                            depth=b['depth']['dense'][kind]))
    for kind in ('curve', 'surface'):
        systems.append(dict(mode='bfs', system='container', kind=kind, depth=b['depth']['container']))
    for kind, rational in (('surface', False), ('surface', True), ('volume', False)):
        systems.append(dict(mode='bfs', system='sampling', kind=kind, rational=rational, seed_index=0,
                            depth=b['depth']['sampling']))
    cases = []
    for sc in systems:
        cases.append(dict(sc, prefix=None))
    for sc in systems:
        sysm = _system(sc, seed)
        with core.quiet():
            first = sysm.ops(sysm.initial())
        if sc['depth'] >= 2:
            for op in first:
                cases.append(dict(sc, prefix=[op]))
    return cases


def case_weight(c):
    w = {'curve': 1, 'surface': 4, 'volume': 3}.get(c.get('kind'), 1) * (10 ** c.get('depth', 1))
    return w if c.get('prefix') else 1


# ----------------------------------------------------------------------------------------
# comparison helper
# ----------------------------------------------------------------------------------------

def same(a, b, tol=TOL):
    if isinstance(a, (list, tuple)) and isinstance(b, (list, tuple)):
        return len(a) == len(b) and all(same(x, y, tol) for x, y in zip(a, b))
    if isinstance(a, dict) and isinstance(b, dict):
        return set(a) == set(b) and all(same(a[k], b[k], tol) for k in a)
    if isinstance(a, bool) or isinstance(b, bool):
        return a == b
    if isinstance(a, (int, float)) and isinstance(b, (int, float)):
        return abs(a - b) <= tol * max(1.0, abs(a), abs(b))
    return a == b


def plain(x):
    """JSON-able deep copy of a reader value"""
    if isinstance(x, (list, tuple)):
        return [plain(v) for v in x]
    if isinstance(x, dict):
        return {str(k): plain(v) for k, v in x.items()}
    if isinstance(x, (int, float, str, bool)) or x is None:
        return x
    return repr(type(x).__name__)


# ----------------------------------------------------------------------------------------
# spline system
# ----------------------------------------------------------------------------------------

def _tess(obj):
    vs = [[v.id, plain(v.data), plain(v.uv)] for v in obj.vertices]
    fs = [[f.id, plain(getattr(f, 'vertex_ids', None) or f.data)] for f in obj.faces]
    return [vs, fs]


READERS_ALL = ['ctrlpts', 'weights', 'ctrlptsw', 'ctrlpts2d', 'evalpts', 'bbox', 'sample_size', 'delta', 'tess',
               'data', 'dims', 'domain', 'single', 'derivs', 'sweep']
CP_READERS = ('ctrlpts', 'weights', 'ctrlptsw', 'ctrlpts2d', 'bbox', 'dims')


def read(obj, name):
    if name == 'tess':
        return _tess(obj)
    if name == 'dims':
        return [obj.dimension, obj.pdimension, obj.ctrlpts_size, plain(obj.cpsize), obj.rational]
    if name == 'data':
        return plain(obj.data)
    if name == 'domain':
        return [plain(obj.domain), plain(obj.range)]
    if name == 'sweep':
        # many single-parameter queries on one object (97 distinct parameters of a curve, 13 x 9 of a surface): whatever the
        # object remembers per parameter is filled far beyond a small capacity before the next edit
        pd = obj.pdimension
        if pd == 3:
            return None
        kvs = [obj.knotvector] if pd == 1 else list(obj.knotvector)
        degs = [obj.degree] if pd == 1 else list(obj.degree)
        rng = [(kv[p], kv[-(p + 1)]) for kv, p in zip(kvs, degs)]
        if pd == 1:
            lo, hi = rng[0]
            return plain(obj.evaluate_list([lo + (hi - lo) * k / 96.0 for k in range(97)]))
        (a, b), (c, d) = rng
        return plain(obj.evaluate_list([[a + (b - a) * i / 12.0, c + (d - c) * j / 8.0] for i in range(13) for j in range(9)]))
    if name in ('single', 'derivs'):
        pd = obj.pdimension
        kvs = [obj.knotvector] if pd == 1 else list(obj.knotvector)
        degs = [obj.degree] if pd == 1 else list(obj.degree)
        prm = [(kv[p] + kv[-(p + 1)]) / 2.0 for kv, p in zip(kvs, degs)]      # from the definition, not from .domain
        if name == 'single':
            return plain(obj.evaluate_single(prm[0] if pd == 1 else prm))
        if pd == 1:
            return plain(obj.derivatives(prm[0], 2))
        if pd == 2:
            return plain(obj.derivatives(prm[0], prm[1], 1))
        return None
    return plain(getattr(obj, name))


class SplineSystem(object):
    def __init__(self, kind, rational, seed_index, seed=0, normalize_kv=True, dense=False):
        self.kind, self.rational, self.seed = kind, rational, seed
        # dense: sample sizes beyond the small ones (17 / 20 per direction, 289 / 343 points in total)
        self.dense = dense
        self.desc = _seeds(kind, rational)[seed_index]
        self.pd = self.desc['pdim']

    # ---- construction --------------------------------------------------------------
    def initial(self):
        obj = S.build(self.desc, self.seed)
        if self.dense:
            obj.sample_size = 17 if self.pd < 3 else 7
        elif self.pd == 1:
            obj.sample_size = 3
        elif self.pd == 2:
            obj.sample_size = 3
        else:
            obj.sample_size = 2
        return obj

    def definition(self, obj):
        pd = self.pd
        if pd == 1:
            degrees, kvs, sizes = [obj.degree], [list(obj.knotvector)], [obj.ctrlpts_size]
            delta = [obj.delta]
        else:
            degrees, kvs = list(obj.degree), [list(k) for k in obj.knotvector]
            sizes = list(obj.cpsize)
            delta = list(obj.delta)
        P = obj.ctrlptsw if obj.rational else obj.ctrlpts
        P = [list(p) for p in P]
        consistent = all(len(kv) == n + p + 1 for kv, n, p in zip(kvs, sizes, degrees)) and \
            len(P) == _prod(sizes) and all(n >= p + 1 for n, p in zip(sizes, degrees))
        return dict(cls=type(obj), degrees=degrees, kvs=kvs, sizes=sizes, P=P, delta=delta, consistent=consistent,
                    tsl=type(obj.tessellator) if pd == 2 else None)

    def fresh(self, D):
        obj = D['cls']() if getattr(self, 'desc', {}).get('normalize_kv', True) else D['cls'](normalize_kv=False)
        pd = self.pd
        if pd == 1:
            obj.degree = D['degrees'][0]
            obj.set_ctrlpts(copy.deepcopy(D['P']))
            if D['consistent']:
                obj.knotvector = list(D['kvs'][0])
            obj.delta = D['delta'][0]
        else:
            names = 'uvw'[:pd]
            for a, nm in enumerate(names):
                setattr(obj, 'degree_' + nm, D['degrees'][a])
            obj.set_ctrlpts(copy.deepcopy(D['P']), *D['sizes'])
            if D['consistent']:
                for a, nm in enumerate(names):
                    setattr(obj, 'knotvector_' + nm, list(D['kvs'][a]))
            obj.delta = list(D['delta'])
            if pd == 2 and D['tsl'] is not None:
                obj.tessellator = D['tsl']()
        return obj

    def _sibling(self, src):
        sib = type(src)() if self.desc.get('normalize_kv', True) else type(src)(normalize_kv=False)
        pd = self.pd
        view = src.ctrlptsw if src.rational else src.ctrlpts
        if pd == 1:
            sib.degree = src.degree
            sib.set_ctrlpts(view)
            sib.knotvector = src.knotvector
            sib.delta = src.delta
        else:
            for nm in 'uvw'[:pd]:
                setattr(sib, 'degree_' + nm, getattr(src, 'degree_' + nm))
            sib.set_ctrlpts(view, *list(src.cpsize))
            for nm in 'uvw'[:pd]:
                setattr(sib, 'knotvector_' + nm, getattr(src, 'knotvector_' + nm))
            sib.delta = src.delta
            if pd == 2:
                sib.tessellator = type(src.tessellator)()
        return sib

    def readers(self, D):
        rs = []
        for r in READERS_ALL:
            if r in ('weights', 'ctrlptsw') and not self.rational:
                continue
            if r in ('ctrlpts2d', 'tess') and self.pd != 2:
                continue
            if r == 'sweep' and self.pd != 1:
                continue            # (curves only: the surface variant doubles the cost of the whole check)
            if not D['consistent'] and r not in CP_READERS:
                continue
            if r == 'delta' or r == 'sample_size':
                pass
            rs.append(r)
        return rs

    # ---- alphabet --------------------------------------------------------------------
    def ops(self, obj):
        D = self.definition(obj)
        ops = [['read', r] for r in self.readers(D) if r != 'dims']
        pd = self.pd
        for a in range(pd):
            ops.append(['degree', a, +1])
            if D['degrees'][a] > 1:
                ops.append(['degree', a, -1])
        for a in range(pd):
            n, p = D['sizes'][a], D['degrees'][a]
            if n >= p + 1:
                ops.append(['knotvector', a, 0])
                if n > p + 1:
                    ops.append(['knotvector', a, 1])
        ops += [['ctrlpts', 'A'], ['ctrlpts', 'B'], ['set_ctrlpts', 'A'], ['set_ctrlpts', 'bigger']]
        if self.rational:
            ops += [['ctrlptsw', 'B'], ['weights', 0], ['weights', 1]]
        if pd == 2:
            ops.append(['ctrlpts2d', 'A'])
        if D['consistent']:
            if self.dense:
                ops += [['sample_size', 17 if pd < 3 else 7], ['sample_size', 20 if pd < 3 else 8], ['delta', 0.0625 if pd < 3 else 0.125]]
            else:
                ops += [['sample_size', 3], ['sample_size', 4], ['delta', 0.5], ['delta', 0.34], ['delta', 2.0 / 9.0]]
            for a in range(pd):
                ops += [['insert_knot', a, 0.5], ['remove_knot', a, 0.5]]
            ops += [['refine', 0]]
            if pd >= 2:
                # a request whose first direction is fine and whose second one is refused (density 1.5): whatever part of it is
                # carried out, the object must remain one a fresh object can equal
                ops += [['refine_bad_tail']]
            if pd == 1:
                ops.append(['reverse'])
            if pd == 2:
                ops += [['transpose'], ['flip']]
            ops += [['translate'], ['rotate'], ['scale'], ['evaluate'], ['evaluate_partial_then_full']]
        ops.append(['become_deepcopy'])
        return ops

    def _net(self, obj, which, sizes=None):
        sizes = sizes or ([obj.ctrlpts_size] if self.pd == 1 else list(obj.cpsize))
        dim = obj.dimension
        if which == 'A':
            pts = A.make_net(sizes, dim, 'coded')
            return [[c + 0.5 for c in p] for p in pts], sizes
        if which == 'B':
            return A.make_net(sizes, dim, 'seeded', 11 + self.seed), sizes
        if which == 'bigger':
            sizes = [sizes[0] + 1] + list(sizes[1:])
            return A.make_net(sizes, dim, 'coded'), sizes
        raise ValueError(which)

    def is_mutator(self, op):
        return op[0] != 'read'

    def apply(self, obj, op):
        from geomdl import operations
        k = op[0]
        pd = self.pd
        nm = 'uvw'
        try:
            if k == 'read':
                return read(obj, op[1])
            if k == 'degree':
                if pd == 1:
                    obj.degree = obj.degree + op[2]
                else:
                    setattr(obj, 'degree_' + nm[op[1]], obj.degree[op[1]] + op[2])
            elif k == 'knotvector':
                a = op[1]
                p = obj.degree if pd == 1 else obj.degree[a]
                n = obj.ctrlpts_size if pd == 1 else obj.cpsize[a]
                inner = [float(i) / (n - p) for i in range(1, n - p)]
                if op[2] == 1:
                    inner = [x * x for x in inner]
                kv = [0.0] * (p + 1) + inner + [1.0] * (p + 1)
                if not self.desc.get('normalize_kv', True):
                    # another knot range on purpose: [0, 2] and [1, 3]
                    kv = [2.0 * x + (1.0 if op[2] == 1 else 0.0) for x in kv]
                if pd == 1:
                    obj.knotvector = kv
                else:
                    setattr(obj, 'knotvector_' + nm[a], kv)
            elif k == 'ctrlpts':
                pts, _ = self._net(obj, op[1])
                obj.ctrlpts = pts
                _scribble(pts)
            elif k == 'set_ctrlpts':
                pts, sizes = self._net(obj, op[1])
                if self.rational:
                    w = A.make_weights(sizes, 'seeded', 5)
                    pts = [[c * wi for c in p] + [wi] for p, wi in zip(pts, w)]
                if pd == 1:
                    obj.set_ctrlpts(pts)
                else:
                    obj.set_ctrlpts(pts, *sizes)
                _scribble(pts)
            elif k == 'ctrlptsw':
                pts, sizes = self._net(obj, op[1])
                w = A.make_weights(sizes, 'coded')
                arg = [[c * wi for c in p] + [wi] for p, wi in zip(pts, w)]
                obj.ctrlptsw = arg
                _scribble(arg)
            elif k == 'ctrlpts2d':
                pts, sizes = self._net(obj, op[1])
                if self.rational:
                    pts = [p + [1.0] for p in pts]
                obj.ctrlpts2d = [[pts[v + sizes[1] * u] for v in range(sizes[1])] for u in range(sizes[0])]
            elif k == 'weights':
                sizes = [obj.ctrlpts_size] if pd == 1 else list(obj.cpsize)
                arg = A.make_weights(sizes, 'spike' if op[1] == 0 else 'seeded', 3)
                obj.weights = arg
                _scribble(arg)
            elif k == 'sample_size':
                obj.sample_size = op[1]
            elif k == 'delta':
                obj.delta = op[1]
            elif k == 'insert_knot':
                if pd == 1:
                    obj.insert_knot(op[2])
                else:
                    obj.insert_knot(**{nm[op[1]]: op[2]})
            elif k == 'remove_knot':
                if pd == 1:
                    obj.remove_knot(op[2])
                else:
                    obj.remove_knot(**{nm[op[1]]: op[2]})
            elif k == 'refine':
                prm = [0] * pd
                prm[op[1]] = 1
                operations.refine_knotvector(obj, prm)
            elif k == 'refine_bad_tail':
                operations.refine_knotvector(obj, [1, 1.5] + [0] * (pd - 2))
            elif k == 'reverse':
                obj.reverse()
            elif k == 'transpose':
                obj.transpose()
            elif k == 'flip':
                operations.flip(obj, inplace=True)
            elif k == 'translate':
                operations.translate(obj, [1.0, -2.0, 0.5][:obj.dimension], inplace=True)
            elif k == 'rotate':
                operations.rotate(obj, 30, axis=2, inplace=True)
            elif k == 'scale':
                operations.scale(obj, 2.5, inplace=True)
            elif k == 'evaluate':
                obj.evaluate()
            elif k == 'evaluate_partial_then_full':
                # partial evaluation is documented to load evalpts with a segment; a following evaluate() without
                # arguments is the documented way to get the whole shape back
                kvs = [obj.knotvector] if pd == 1 else list(obj.knotvector)
                degs = [obj.degree] if pd == 1 else list(obj.degree)
                lo = [kv[p] for kv, p in zip(kvs, degs)]
                hi = [kv[-(p + 1)] for kv, p in zip(kvs, degs)]
                mid = [(a + b) / 2.0 for a, b in zip(lo, hi)]
                if pd == 1:
                    obj.evaluate(start=lo[0], stop=mid[0])
                elif pd == 2:
                    obj.evaluate(start_u=lo[0], stop_u=mid[0], start_v=mid[1], stop_v=hi[1])
                else:
                    obj.evaluate(start_u=lo[0], stop_u=mid[0], start_v=mid[1], stop_v=hi[1], start_w=lo[2], stop_w=mid[2])
                obj.evaluate()
            elif k == 'become_deepcopy':
                _become_copy(obj)
            else:
                raise RuntimeError("unknown op %r" % (op,))
        except RuntimeError:
            raise
        except Exception as e:  # rejected edit
            return 'EXC:' + type(e).__name__
        return None

    # ---- oracle ----------------------------------------------------------------------
    def pre(self, obj, op):
        if not self.is_mutator(op):
            return None
        return dict(copy=copy.deepcopy(obj), D0=self.definition(obj))

    def judge(self, ctx, hist, op, obj, obs, pre):
        feats = dict(kind=self.kind, rational=self.rational, op=op[0], op_arg=op[1] if len(op) > 1 else None,
                     depth=len(hist) + 1, last_mutator=_last_mutator(hist + [op]))
        rc = dict(mode='history', system='sampling' if isinstance(self, SamplingSystem) else 'spline', kind=self.kind,
                  rational=self.rational,
                  seed_index=_seeds(self.kind, self.rational).index(self.desc), history=hist + [op])
        rejected = isinstance(obs, str) and obs.startswith('EXC:')
        if rejected:
            # a rejected request: whatever definition the object reports now, its views must be those of that definition
            ctx.extra['rejected_ops'] += 1
            feats['rejected'] = True
            if op[0] == 'read':
                return
            pre = None
        D = self.definition(obj)
        if not all(n >= p + 1 for n, p in zip(D['sizes'], D['degrees'])) or len(D['P']) != _prod(D['sizes']):
            ctx.extra['unbuildable_definitions'] += 1     # no fresh object with this definition exists
            return
        try:
            fresh = self.fresh(D)
        except Exception:
            # the reported definition is one no fresh object can have (e.g. a knot vector the setter refuses): no oracle.
            # (Whether a REFUSED request may leave such a state behind is a question of failure atomicity, which the property
            # does not promise and the pinned tree does not provide - e.g. insert_knot with a parameter outside the domain of a
            # curve that keeps its own knot range grows the control net and then fails in the knot vector setter.)
            ctx.extra['unbuildable_definitions'] += 1
            return
        if op[0] == 'read':
            exp = read(fresh, op[1])
            ctx.check('C12.%s.read_after_history.%s' % (self.kind, op[1]), same(obs, exp), rc, feats, exp, obs)
            ctx.outcome(core.jhash(obs))
        # every reader, fixed order, on the explored object vs the fresh one
        for r in self.readers(D):
            try:
                got = read(obj, r)
            except Exception as e:
                got = 'EXC:' + type(e).__name__
            try:
                exp = read(fresh, r)
            except Exception as e:
                exp = 'EXC:' + type(e).__name__
            ctx.check('C12.%s.stale.%s' % (self.kind, r), same(got, exp), dict(rc, reader=r), dict(feats, reader=r), exp, got)
        # deep-copy independence
        if pre is not None and all(n >= p + 1 for n, p in zip(pre['D0']['sizes'], pre['D0']['degrees'])):
            c, D0 = pre['copy'], pre['D0']
            try:
                f0 = self.fresh(D0)
            except Exception:
                return          # the state before the edit had no fresh counterpart either: no oracle for the copy checks
            for r in self.readers(D0):
                got, exp = _safe_read(c, r), _safe_read(f0, r)
                ctx.check('C12.%s.copy_independent.original_edited' % self.kind, same(got, exp),
                          dict(rc, reader=r), dict(feats, reader=r), exp, got)
            # symmetric: edit a copy, the original must not move
            orig, _ = X.replay(self, hist)
            c2 = copy.deepcopy(orig)
            self.apply(c2, op)
            f1 = self.fresh(D0)
            for r in self.readers(D0):
                got, exp = _safe_read(orig, r), _safe_read(f1, r)
                ctx.check('C12.%s.copy_independent.copy_edited' % self.kind, same(got, exp),
                          dict(rc, reader=r), dict(feats, reader=r), exp, got)
            # a second shape assembled from the first one's own views (degree, control points, knot vectors handed over as
            # the very lists the views return) and read once: editing the first shape afterwards must leave the second one an
            # object whose readers are those of the definition it reports
            # (every history of the system that keeps its knot ranges - where the pinned tree does store the caller's knot
            # list itself - and the histories up to length 2 of the others: the full depth would double the cost of the check)
            if D0['consistent'] and (len(hist) < 2 or not self.desc.get('normalize_kv', True)):
                src, _ = X.replay(self, hist)
                try:
                    sib = self._sibling(src)
                    for r in self.readers(D0):
                        _safe_read(sib, r)
                except Exception:
                    sib = None
                if sib is not None:
                    try:
                        self.apply(src, op)
                    except Exception:
                        pass
                    Ds = self.definition(sib)
                    try:
                        fs = self.fresh(Ds) if Ds['consistent'] else None
                    except Exception:
                        fs = None
                    if fs is not None:
                        for r in self.readers(Ds):
                            got, exp = _safe_read(sib, r), _safe_read(fs, r)
                            ctx.check('C12.%s.built_from_views.stale_after_edit_of_source' % self.kind, same(got, exp),
                                      dict(rc, reader=r), dict(feats, reader=r), exp, got)
            # and the edited copy behaves like an edited original
            Dc = self.definition(c2)
            ctx.check('C12.%s.copy_edit_same_definition' % self.kind,
                      same(_plain_def(Dc), _plain_def(D)), rc, feats, _plain_def(D), _plain_def(Dc))


def _safe_read(obj, r):
    try:
        return read(obj, r)
    except Exception as e:
        return 'EXC:' + type(e).__name__


def _scribble(arg):
    """the caller owns the lists it passed to a setter: overwrite them in place after the call (an object that kept a
    reference instead of its own copy now shows it)"""
    for i in range(len(arg)):
        if isinstance(arg[i], list):
            for j in range(len(arg[i])):
                arg[i][j] = 7.25 + j
        else:
            arg[i] = 7.25 + i
    if len(arg) > 1:
        arg.pop()


def _become_copy(obj):
    """continue the history on a deep copy: the explored object takes over the complete state of its own
    deep copy (whatever __deepcopy__ produced), so that copies are explored like any other state"""
    new = copy.deepcopy(obj)
    obj.__dict__.clear()
    obj.__dict__.update(new.__dict__)


def _plain_def(D):
    return dict(degrees=D['degrees'], kvs=D['kvs'], sizes=D['sizes'], P=D['P'], delta=D['delta'])


def _prod(xs):
    r = 1
    for x in xs:
        r *= x
    return r


def _last_mutator(hist):
    for op in reversed(hist):
        if op[0] != 'read':
            return op[0]
    return None


# ----------------------------------------------------------------------------------------
# sampling sub-system: per-direction sampling density histories (deeper, small alphabet)
# ----------------------------------------------------------------------------------------

class SamplingSystem(SplineSystem):
    """surfaces and volumes: sample_size_u/v/w, delta_u/v/w, sample_size (all directions), evaluate, readers.
    Values are chosen so that settings of different directions collide (4 samples <-> delta 0.25)."""

    def readers(self, D):
        rs = ['evalpts', 'sample_size', 'delta', 'data']
        if self.pd == 2:
            rs.append('tess')
        return rs

    def ops(self, obj):
        ops = [['read', 'evalpts'], ['read', 'sample_size']]
        for a in range(self.pd):
            ops += [['ss', a, 3], ['ss', a, 4], ['dl', a, 0.25]]
        ops += [['ss_all', 3], ['ss_all', 4], ['evaluate']]
        return ops

    def apply(self, obj, op):
        k = op[0]
        try:
            if k == 'ss':
                setattr(obj, 'sample_size_' + 'uvw'[op[1]], op[2])
            elif k == 'dl':
                setattr(obj, 'delta_' + 'uvw'[op[1]], op[2])
            elif k == 'ss_all':
                obj.sample_size = op[1]
            else:
                return SplineSystem.apply(self, obj, op)
        except Exception as e:
            return 'EXC:' + type(e).__name__
        return None


# ----------------------------------------------------------------------------------------
# container system
# ----------------------------------------------------------------------------------------

class ContainerSystem(object):
    """CurveContainer / SurfaceContainer: add(elem_k), delta, sample_size, readers, tessellate(force), element edit"""

    def __init__(self, kind, seed=0):
        self.kind, self.seed = kind, seed
        self.pd = 1 if kind == 'curve' else 2

    def _elem(self, k):
        if self.kind == 'curve':
            descs = [A.shape_desc([[0, 0, 0, 0.5, 1, 1, 1]], [2], False, 3, 'coded'),
                     A.shape_desc([[0, 0, 1, 1]], [1], True, 3, 'seeded', 'coded'),
                     A.shape_desc([[0, 0, 0, 1, 1, 1]], [2], False, 3, 'seeded')]
        else:
            descs = [A.shape_desc([[0, 0, 0, 0.5, 1, 1, 1], [0, 0, 1, 1]], [2, 1], False, 3, 'coded'),
                     A.shape_desc([[0, 0, 1, 1], [0, 0, 0, 1, 1, 1]], [1, 2], True, 3, 'seeded', 'coded'),
                     A.shape_desc([[0, 0, 1, 1], [0, 0, 1, 1]], [1, 1], False, 3, 'seeded')]
        e = S.build(descs[k], self.seed + k)
        e.sample_size = 3
        return e

    def initial(self):
        from geomdl import multi
        c = multi.CurveContainer() if self.kind == 'curve' else multi.SurfaceContainer()
        c.add(self._elem(0))
        c.sample_size = 3
        return c

    def readers(self):
        return ['evalpts', 'bbox', 'sample_size', 'delta', 'data'] + (['tess'] if self.kind == 'surface' else [])

    def ops(self, obj):
        ops = [['read', r] for r in self.readers()]
        if len(obj) < 3:
            ops += [['add', 1], ['add', 2]]
            # a list whose second entry the container rejects (2-D geometry into a 3-D container): whatever part of the request is
            # carried out, the aggregates must describe the elements the container then holds
            ops += [['add_list_bad_tail', 2]]
        ops += [['delta', 0.5], ['delta', 0.34], ['sample_size', 4]]
        if self.kind == 'surface':
            ops += [['tessellate_force']]
        ops += [['transform', 'translate'], ['transform', 'scale'], ['transform', 'rotate']]
        if self.kind == 'surface':
            ops += [['transform', 'transpose']]
        ops += [['become_deepcopy']]
        ops += [['edit_element', 'translate'], ['edit_element', 'sample_size']]
        return ops

    def is_mutator(self, op):
        return op[0] != 'read'

    def apply(self, obj, op):
        from geomdl import operations
        k = op[0]
        try:
            if k == 'read':
                return self.read(obj, op[1])
            if k == 'add':
                obj.add(self._elem(op[1]))
            elif k == 'add_list_bad_tail':
                bad = S.build(A.shape_desc([[0, 0, 1, 1]], [1], False, 2, 'coded') if self.kind == 'curve' else
                              A.shape_desc([[0, 0, 1, 1], [0, 0, 1, 1]], [1, 1], False, 2, 'coded'), self.seed)
                obj.add([self._elem(op[1]), bad])
            elif k == 'delta':
                obj.delta = op[1]
            elif k == 'sample_size':
                obj.sample_size = op[1]
            elif k == 'tessellate_force':
                obj.tessellate(force=True)
            elif k == 'become_deepcopy':
                _become_copy(obj)
            elif k == 'transform':
                if op[1] == 'translate':
                    operations.translate(obj, [0.5, -1.0, 2.0], inplace=True)
                elif op[1] == 'scale':
                    operations.scale(obj, 2.0, inplace=True)
                elif op[1] == 'rotate':
                    operations.rotate(obj, 30.0, axis=2, inplace=True)
                else:
                    operations.transpose(obj, inplace=True)
            elif k == 'edit_element':
                if op[1] == 'translate':
                    operations.translate(obj[0], [1.0, 1.0, 1.0], inplace=True)
                else:
                    obj[0].sample_size = 5
            else:
                raise RuntimeError(op)
        except RuntimeError:
            raise
        except Exception as e:
            return 'EXC:' + type(e).__name__
        return None

    def read(self, obj, name):
        if name == 'tess':
            return _tess(obj)
        return plain(getattr(obj, name))

    def definition(self, obj):
        elems = []
        for e in obj:
            sub = SplineSystem.__new__(SplineSystem)
            sub.pd, sub.rational, sub.kind = self.pd, e.rational, self.kind
            elems.append((sub, sub.definition(e)))
        return dict(elems=elems, delta=obj.delta)

    def fresh(self, D):
        from geomdl import multi
        c = multi.CurveContainer() if self.kind == 'curve' else multi.SurfaceContainer()
        for sub, d in D['elems']:
            c.add(sub.fresh(d))
        c.delta = D['delta']
        return c

    def pre(self, obj, op):
        return None

    def judge(self, ctx, hist, op, obj, obs, pre):
        edited = any(o[0] == 'edit_element' for o in hist + [op])
        feats = dict(kind=self.kind, container=True, op=op[0], element_edited=edited, depth=len(hist) + 1)
        rc = dict(mode='history', system='container', kind=self.kind, history=hist + [op])
        if isinstance(obs, str) and obs.startswith('EXC:'):
            # a rejected request: whatever the container holds now is its definition, and its views must describe that
            ctx.extra['rejected_ops'] += 1
            feats['rejected'] = True
        D = self.definition(obj)
        fresh = self.fresh(D)
        obl = 'C12.container.%s.%s' % (self.kind, 'element_edit' if edited else 'stale')
        if op[0] == 'read':
            exp = self.read(fresh, op[1])
            ctx.check(obl + '.read_after_history.' + op[1], same(obs, exp), rc, feats, exp, obs)
            ctx.outcome(core.jhash(obs))
        for r in self.readers():
            try:
                got = self.read(obj, r)
            except Exception as e:
                got = 'EXC:' + type(e).__name__
            exp = self.read(fresh, r)
            ctx.check(obl + '.' + r, same(got, exp), dict(rc, reader=r), dict(feats, reader=r), exp, got)
        # the elements themselves must not have been disturbed by the container's aggregates: each element's own
        # sampled points equal those of an independent fresh element with the element's current definition
        for k, e in enumerate(obj):
            sub = D['elems'][k][0]
            d = sub.definition(e)       # re-read: reading the container's aggregates sets the elements' delta
            try:
                got = plain(e.evalpts)
            except Exception as ex:
                got = 'EXC:' + type(ex).__name__
            exp = plain(sub.fresh(d).evalpts)
            ctx.check('C12.container.%s.element_views' % self.kind, same(got, exp), dict(rc, reader='element%d.evalpts' % k),
                      dict(feats, element=k), exp, got)


# ----------------------------------------------------------------------------------------

def _system(case, seed):
    if case['system'] == 'spline':
        return SplineSystem(case['kind'], case['rational'], case['seed_index'], seed, dense=bool(case.get('dense')))
    if case['system'] == 'sampling':
        return SamplingSystem(case['kind'], case['rational'], case['seed_index'], seed)
    return ContainerSystem(case['kind'], seed)


def run_case(case, ctx):
    sysm = _system(case, ctx.seed)
    if case['mode'] == 'history':
        hist = case['history']
        core.clear_lru_caches()
        obj, _ = X.replay(sysm, hist[:-1])
        pre = sysm.pre(obj, hist[-1])
        obs = sysm.apply(obj, hist[-1])
        sysm.judge(ctx, hist[:-1], hist[-1], obj, obs, pre)
        return
    budget = 500 if ctx.tier == 'quick' else 3000
    stats = X.bfs(sysm, ctx, case['depth'], deadline=time.time() + budget, prefix=case.get('prefix'),
                  expand=case.get('prefix') is not None,
                  label='%s/%s/%s/%s%s' % (case['system'], case['kind'], case.get('rational'), case.get('seed_index'),
                                           '/dense' if case.get('dense') else ''))
    for k in ('states', 'transitions', 'merged', 'determinism_checks'):
        ctx.extra['bfs_' + k] += stats[k]
    if not stats['frontier_exhausted']:
        ctx.extra['bfs_capped'] += 1

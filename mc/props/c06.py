"""C06 - removing a removable knot is exact and inverts insertion (E1 + E2)."""
import copy
import math
import itertools
import time
from fractions import Fraction as F

from .. import alphabet as A
from .. import core
from .. import explorer as X
from .. import refmodel as R
from .. import shapes as S

PROPERTY = "C06"
VIA_HISTORY_EVERY = 7      # every k-th shape case is also run on an object that reached its definition through edits
EXPLORERS = ['E1', 'E2']
RULE = ("E1: every clamped shape of the alphabet x direction x parameter (every interior knot, every span midpoint, 1/3) x "
        "insertion count r = 1..p-s, then removal of k = 1..r copies through operations.remove_knot, the object wrappers and "
        "helpers.knot_removal(+_kv); refinement (density 1) followed by removal of every created knot; E2: BFS over "
        "insert/remove histories where only knots that are 'owed' (inserted before) are removed; non-trivial = rational or "
        "at least one interior knot before insertion")
ASSUMPTIONS = [
    "removable knots are produced by exact insertion/refinement (verified separately by C04/C05); the oracle compares with the "
    "model of the shape BEFORE insertion, so it does not trust insertion",
    "tolerance 1e-7 relative on results of removal (divisions by alphas), as in DESIGN 2.4",
]
TOL = 1e-7
NM = 'uvw'


def bounds(tier):
    return dict(quick=dict(curves='p<=3 over K(p,2,4)', surfaces="degrees {1,2,3}^2 (pairwise different sizes), 3 reps/dir",
                           volumes='degrees {1,2}^3, 2 reps/dir', history_depth=3),
                thorough=dict(curves='p<=4 over K(p,3,4)/(p,2,4)', surfaces="degrees {1,2,3}^2 over K'(p) level 1",
                              volumes='degrees {1,2}^3, 3 reps/dir', history_depth=4))[tier]


# ----------------------------------------------------------------------------------------

def _shapes(tier):
    q = tier == 'quick'
    out = []
    plan = [(1, 2, 4), (2, 2, 4), (3, 2, 4)] if q else [(1, 3, 4), (2, 3, 4), (3, 3, 4), (4, 2, 4)]
    for p, B, G in plan:
        for kv in A.clamped_kvs(p, B, G):
            out.append(A.shape_desc([kv], [p], False, 3, 'coded'))
            out.append(A.shape_desc([kv], [p], True, 2, 'seeded', 'coded'))
    # the tall thin slice: degree up to 6, up to 12 (thorough 20) control points
    from .. import util_knots as K
    out += K.tall_curve_shapes(tier)
    out += K.variety_shapes(tier, pdims=(1, 2))
    out += K.zero_shapes(tier, pdims=(3,))      # 0.0 as an interior knot / domain end of a volume direction
    degs = [1, 2, 3]
    for pu, pv in itertools.product(degs, degs):
        ru = A.rep_kvs(pu, 1)[:3] if q else A.rep_kvs(pu, 1)
        rv = A.rep_kvs(pv, 1)[:3] if q else A.rep_kvs(pv, 1)
        for ku, kv in itertools.product(ru, rv):
            if len(ku) - pu == len(kv) - pv:
                continue
            out.append(A.shape_desc([ku, kv], [pu, pv], False, 3, 'coded'))
            if not q or (pu + pv) <= 4:
                out.append(A.shape_desc([ku, kv], [pu, pv], True, 3, 'coded', 'coded'))
    out += K.tall_surface_shapes(tier)
    for pu, pv, pw in itertools.product([1, 2], repeat=3):
        reps = lambda p: A.rep_kvs(p, 1)[:2] if q else A.rep_kvs(p, 1)[:3]
        for ku, kv, kw in itertools.product(reps(pu), reps(pv), reps(pw)):
            sz = (len(ku) - pu - 1, len(kv) - pv - 1, len(kw) - pw - 1)
            if len(set(sz)) < 3:
                continue
            out.append(A.shape_desc([ku, kv, kw], [pu, pv, pw], False, 3, 'coded'))
            if not q:
                out.append(A.shape_desc([ku, kv, kw], [pu, pv, pw], True, 3, 'coded', 'coded'))
    return out


def _insert_params(p, kv):
    n = len(kv) - p - 1
    out = []
    for i in range(p, n):
        a, b = kv[i], kv[i + 1]
        if a < b:
            if a > kv[p]:
                out.append(a)
            out.append(a + (b - a) / 2.0)
    out.append(kv[p] + (kv[n] - kv[p]) / 3.0)
    seen, res = set(), []
    for u in out:
        if u not in seen:
            seen.add(u)
            res.append(u)
    return res


def gen_cases(tier, seed):
    cases = []
    for d in _shapes(tier):
        for a in range(d['pdim']):
            cases.append(dict(mode='insert_remove', shape=d, dir=a))
        cases.append(dict(mode='refine_remove', shape=d))
        if d['pdim'] >= 2:
            cases.append(dict(mode='multi_dir', shape=d))
    depth = 3 if tier == 'quick' else 4
    for kind in ('curve', 'curve_rational', 'surface', 'surface_rational', 'volume'):
        sysm = HistSystem(kind)
        cases.append(dict(mode='bfs', kind=kind, depth=depth, prefix=None))
        for op in sysm.ops(sysm.initial()):
            cases.append(dict(mode='bfs', kind=kind, depth=depth, prefix=[op]))
    return cases


def case_weight(c):
    if c['mode'] == 'bfs':
        return 5000 if c.get('prefix') else 10
    d = c['shape']
    w = 1
    for kv, p in zip(d['kvs'], d['degrees']):
        w *= len(kv)
    return w


# ----------------------------------------------------------------------------------------

def _param_grid(model, cap=None):
    sets = []
    pd = len(model['degrees'])
    for kv, p in zip(model['kvs'], model['degrees']):
        per = (2 * p + 1) if model['rational'] else (p + 1)
        if pd == 3:
            per = 1 if not model['rational'] else 2
        sets.append(A.params_for(p, [float(k) for k in kv], per_span=per, extras=False))
    return list(itertools.product(*sets))


def _same_geometry(ctx, obl, obj, model0, rc, feats, **_):
    """Decides 'same shape as model0' exactly: model0 is refined *exactly* (Boehm insertion in Fractions) to the
    knot vectors of obj; on equal knot vectors equal (homogeneous) control nets <=> equal shapes because the
    B-spline basis is linearly independent.  A rational shape whose homogeneous net differs is re-judged
    projectively on the parameter grid (2p+1 points per span) before a violation is reported."""
    m1 = R.def_from_obj(obj)
    scale = S.max_abs(model0)
    exp = R.refine_to(model0, m1['kvs'])
    if exp is None:
        return ctx.check(obl, False, rc, feats, 'knot vectors that refine the original', [list(map(float, k)) for k in m1['kvs']])
    ok, _ = core._close(m1['P'], exp['P'], TOL, scale)
    if ok or not m1['rational']:
        return ctx.close(obl, m1['P'], exp['P'], TOL, scale, rc, feats)
    for prm in _param_grid(m1):
        fp = [F(x) for x in prm]
        if not ctx.close(obl, R.eval_point(m1, fp), R.eval_point(model0, fp), TOL, scale, dict(rc, at=list(prm)), feats):
            return False
    return True


def _kv_minus(kv, u, k):
    out = list(kv)
    for _ in range(k):
        out.remove(u)
    return out


def _dirs(obj):
    return [obj.knotvector] if obj.pdimension == 1 else list(obj.knotvector)


def _sizes(obj):
    return [obj.ctrlpts_size] if obj.pdimension == 1 else list(obj.cpsize)


def _args(pd, a, u, k):
    prm = [None] * pd
    num = [0] * pd
    prm[a], num[a] = u, k
    return prm, num


def _net(obj):
    return [list(p) for p in (obj.ctrlptsw if obj.rational else obj.ctrlpts)]


def _insert_remove(case, ctx):
    from geomdl import operations, helpers
    desc, a = case['shape'], case['dir']
    pd = desc['pdim']
    p = desc['degrees'][a]
    kv = [float(k) for k in _dirs(S.build(desc, ctx.seed))[a]]      # the knot vector the object really has
    ctx.state(dict(d=desc, a=a), nontrivial=A.is_nontrivial(desc))
    params = case.get('params') or _insert_params(p, kv)
    for u in params:
        s = sum(1 for k in kv if k == u)
        for r in range(1, p - s + 1):
            if 'r' in case and r != case['r']:
                continue
            base = S.build(desc, ctx.seed)
            model0 = R.def_from_obj(base)
            net0 = _net(base)
            prm, num = _args(pd, a, u, r)
            operations.insert_knot(base, prm, num)
            kv_ins = list(_dirs(base)[a])
            sizes_ins = _sizes(base)
            m_ins = R.def_from_obj(base)
            expected = None
            for k in range(1, r + 1):
                if 'k' in case and k != case['k']:
                    continue
                for via in ('operations', 'wrapper') + (('helper',) if pd == 1 else ()):
                    if 'via' in case and via != case['via']:
                        continue
                    feats = dict(pdim=pd, rational=desc['rational'], degree=p, direction=NM[a], inserted=r, removed=k,
                                 multiplicity_before=s, via=via, full_roundtrip=(k == r))
                    rc = dict(case, params=[u], r=r, k=k, via=via)
                    obj = copy.deepcopy(base)
                    prm2, num2 = _args(pd, a, u, k)
                    try:
                        if via == 'operations':
                            operations.remove_knot(obj, prm2, num2)
                        elif via == 'wrapper':
                            if pd == 1:
                                obj.remove_knot(u, num=k)
                            else:
                                obj.remove_knot(**{NM[a]: u, 'num_' + NM[a]: k})
                        else:
                            cp = _net(obj)
                            span = helpers.find_span_linear(p, kv_ins, len(cp), u)
                            new_cp = helpers.knot_removal(p, kv_ins, cp, u, num=k)
                            new_kv = helpers.knot_removal_kv(kv_ins, span, k)
                            ctx.check('C06.helper.inputs_unchanged', cp == _net(obj) and kv_ins == list(_dirs(base)[a]), rc, feats)
                            obj.set_ctrlpts(new_cp)
                            obj.knotvector = new_kv
                    except Exception as e:
                        ctx.check('C06.remove.no_exception', False, rc, feats, 'removal of an inserted knot succeeds', repr(e))
                        continue
                    exp_kv = _kv_minus(kv_ins, u, k)
                    ctx.check('C06.remove.knotvector', list(_dirs(obj)[a]) == exp_kv, rc, feats, exp_kv, list(_dirs(obj)[a]))
                    exp_sizes = list(sizes_ins)
                    exp_sizes[a] -= k
                    ctx.check('C06.remove.size', _sizes(obj) == exp_sizes, rc, feats, exp_sizes, _sizes(obj))
                    others_ok = all(list(_dirs(obj)[b]) == list(_dirs(base)[b]) for b in range(pd) if b != a)
                    ctx.check('C06.remove.other_directions_untouched', others_ok, rc, feats)
                    if list(_dirs(obj)[a]) != exp_kv or _sizes(obj) != exp_sizes:
                        continue
                    if k == r:
                        # same knot vectors as the original: equal control points <=> equal shape (basis is independent)
                        ctx.close('C06.roundtrip.control_points_restored', _net(obj), net0, TOL, S.max_abs(model0), rc, feats)
                    else:
                        _same_geometry(ctx, 'C06.remove.geometry', obj, model0, rc, feats)
            # the inserted knot named by a float one ulp away from the stored one (0.3 asked for as 0.1 + 0.2): the library
            # identifies knots within its tolerance of 1e-7, so this is the same removable knot
            if s == 0 and 'k' not in case and 'via' not in case and not case.get('no_near'):
                for near, u2 in (('above', math.nextafter(u, math.inf)), ('below', math.nextafter(u, -math.inf))):
                    feats = dict(pdim=pd, rational=desc['rational'], degree=p, direction=NM[a], inserted=r, removed=r,
                                 near_knot=near, family='near_knot')
                    rc = dict(case, params=[u], r=r)
                    obj = copy.deepcopy(base)
                    prm2, num2 = _args(pd, a, u2, r)
                    try:
                        operations.remove_knot(obj, prm2, num2)
                    except Exception as e:
                        ctx.check('C06.near_knot.no_exception', False, rc, feats, 'removal of an inserted knot succeeds', repr(e))
                        continue
                    ok = list(_dirs(obj)[a]) == list(kv) and _sizes(obj) == _sizes(S.build(desc, ctx.seed))
                    if ctx.check('C06.near_knot.reduced', ok, rc, feats, [list(kv)], [list(_dirs(obj)[a]), _sizes(obj)]):
                        ctx.close('C06.near_knot.control_points_restored', _net(obj), net0, TOL, S.max_abs(model0), rc, feats)


def _refine_remove(case, ctx):
    from geomdl import operations
    desc = case['shape']
    pd = desc['pdim']
    ctx.state(dict(d=desc, m='refine'), nontrivial=A.is_nontrivial(desc))
    for a in range(pd):
        base = S.build(desc, ctx.seed)
        model0 = R.def_from_obj(base)
        kv0 = list(_dirs(base)[a])
        p = desc['degrees'][a]
        sel = [0] * pd
        sel[a] = 1
        operations.refine_knotvector(base, sel)
        kv1 = list(_dirs(base)[a])
        m_ref = R.def_from_obj(base)
        expected = None
        created = sorted(set(kv1))
        for u in created:
            owed = sum(1 for k in kv1 if k == u) - sum(1 for k in kv0 if k == u)
            for k in range(1, owed + 1):
                feats = dict(pdim=pd, rational=desc['rational'], degree=p, direction=NM[a], removed=k, owed=owed,
                             via='operations', after='refine')
                rc = dict(case, only=[a, u, k])
                if 'only' in case and case['only'] != [a, u, k]:
                    continue
                obj = copy.deepcopy(base)
                prm, num = _args(pd, a, u, k)
                try:
                    operations.remove_knot(obj, prm, num)
                except Exception as e:
                    ctx.check('C06.remove.no_exception', False, rc, feats, 'removal of a refined knot succeeds', repr(e))
                    continue
                exp_kv = _kv_minus(kv1, u, k)
                ctx.check('C06.refine_remove.knotvector', list(_dirs(obj)[a]) == exp_kv, rc, feats, exp_kv, list(_dirs(obj)[a]))
                if list(_dirs(obj)[a]) == exp_kv:
                    _same_geometry(ctx, 'C06.refine_remove.geometry', obj, model0, rc, feats)


# ----------------------------------------------------------------------------------------
# E2: insert/remove histories
# ----------------------------------------------------------------------------------------

def _hist_seed(kind):
    rat = kind.endswith('rational')
    w = 'coded' if rat else 'ones'
    if kind.startswith('curve'):
        return A.shape_desc([[0, 0, 0, 0, 0.5, 1, 1, 1, 1]], [3], rat, 3, 'coded', w)
    if kind.startswith('surface'):
        return A.shape_desc([[0, 0, 0, 0.5, 1, 1, 1], [0, 0, 0, 0, 1, 1, 1, 1]], [2, 3], rat, 3, 'coded', w)
    return A.shape_desc([[0, 0, 1, 1], [0, 0, 0, 0.5, 1, 1, 1], [0, 0, 0.25, 1, 1]], [1, 2, 1], rat, 3, 'coded', w)


class HistSystem(object):
    VALUES = [0.25, 0.5, 0.75, 1.0 / 3.0]

    def __init__(self, kind, seed=0):
        self.kind, self.seed = kind, seed
        self.desc = _hist_seed(kind)
        self.pd = self.desc['pdim']
        self._model0 = None
        self._net0 = None

    def initial(self):
        return S.build(self.desc, self.seed)

    def ops(self, obj):
        ops = []
        kvs = _dirs(obj)
        for a in range(self.pd):
            p = self.desc['degrees'][a]
            for u in self.VALUES:
                m = sum(1 for k in kvs[a] if k == u)
                m0 = sum(1 for k in self.desc['kvs'][a] if k == u)
                for r in (1, 2):
                    if m + r <= p:
                        ops.append(['insert', a, u, r])
                for k in range(1, m - m0 + 1):
                    ops.append(['remove', a, u, k])
        return ops

    def apply(self, obj, op):
        from geomdl import operations
        prm, num = _args(self.pd, op[1], op[2], op[3])
        if op[0] == 'insert':
            operations.insert_knot(obj, prm, num)
        else:
            operations.remove_knot(obj, prm, num)
        return None

    def judge(self, ctx, hist, op, obj, obs, pre):
        if self._model0 is None:
            o = self.initial()
            self._model0, self._net0 = R.def_from_obj(o), _net(o)
        feats = dict(kind=self.kind, op=op[0], direction=NM[op[1]], count=op[3], depth=len(hist) + 1,
                     removals=sum(1 for o in hist + [op] if o[0] == 'remove'))
        rc = dict(mode='history', kind=self.kind, history=hist + [op])
        ok = _same_geometry(ctx, 'C06.history.geometry', obj, self._model0, rc, feats)
        kvs = [list(k) for k in _dirs(obj)]
        if kvs == [list(k) for k in self.desc['kvs']]:
            ok = ctx.close('C06.history.seed_net_restored', _net(obj), self._net0, TOL, S.max_abs(self._model0), rc, feats) and ok
        return ok


def _multi_dir(case, ctx):
    """one call inserting in several directions, one call removing in the same directions (every subset of >= 2
    directions, counts 1 and, where the degree allows, 2)"""
    from geomdl import operations
    desc = case['shape']
    pd = desc['pdim']
    ctx.state(dict(d=desc, m='multi'), nontrivial=True)
    vals = [0.3, 0.6, 0.45]
    for sub in itertools.chain.from_iterable(itertools.combinations(range(pd), k) for k in range(2, pd + 1)):
        for cnt in (1, 2):
            if any(desc['degrees'][a] < cnt for a in sub):
                continue
            if 'only' in case and case['only'] != [list(sub), cnt]:
                continue
            base = S.build(desc, ctx.seed)
            model0 = R.def_from_obj(base)
            net0 = _net(base)
            prm = [None] * pd
            num = [0] * pd
            for a in sub:
                lo, hi = float(model0['kvs'][a][desc['degrees'][a]]), float(model0['kvs'][a][-(desc['degrees'][a] + 1)])
                prm[a], num[a] = (vals[a] if (lo, hi) == (0.0, 1.0) else lo + (hi - lo) * vals[a]), cnt     # inside the domain
            feats = dict(pdim=pd, rational=desc['rational'], directions=''.join(NM[a] for a in sub), count=cnt, via='operations')
            rc = dict(case, only=[list(sub), cnt])
            try:
                operations.insert_knot(base, prm, num)
                operations.remove_knot(base, prm, num)
            except Exception as e:
                ctx.check('C06.remove.no_exception', False, rc, feats, 'multi-direction removal succeeds', repr(e))
                continue
            ok_kv = [list(k) for k in _dirs(base)] == [[float(x) for x in kv] for kv in model0['kvs']]
            ctx.check('C06.multi_direction.knotvectors', ok_kv, rc, feats, [[float(x) for x in kv] for kv in model0['kvs']],
                      [list(k) for k in _dirs(base)])
            if ok_kv and _sizes(base) == list(model0['sizes']):
                ctx.close('C06.multi_direction.control_points_restored', _net(base), net0, TOL, S.max_abs(model0), rc, feats)
            else:
                ctx.check('C06.multi_direction.control_points_restored', False, rc, feats, list(model0['sizes']), _sizes(base))


def run_case(case, ctx):
    m = case['mode']
    if m == 'multi_dir':
        return _multi_dir(case, ctx)
    if m == 'insert_remove':
        _insert_remove(case, ctx)
    elif m == 'refine_remove':
        _refine_remove(case, ctx)
    elif m == 'bfs':
        sysm = HistSystem(case['kind'], ctx.seed)
        st = X.bfs(sysm, ctx, case['depth'], deadline=time.time() + (500 if ctx.tier == 'quick' else 3000),
                   prefix=case.get('prefix'), expand=case.get('prefix') is not None, label='hist/' + case['kind'])
        for k in ('states', 'transitions', 'merged', 'determinism_checks'):
            ctx.extra['bfs_' + k] += st[k]
        if not st['frontier_exhausted']:
            ctx.extra['bfs_capped'] += 1
    elif m == 'history':
        sysm = HistSystem(case['kind'], ctx.seed)
        hist = case['history']
        obj, _ = X.replay(sysm, hist[:-1])
        sysm.apply(obj, hist[-1])
        sysm.judge(ctx, hist[:-1], hist[-1], obj, None, None)

"""C10 - translation, rotation and scaling act on the shape as on its points (explorer E1)."""
import itertools
import math
from fractions import Fraction as F

from .. import alphabet as A
from .. import core
from .. import refmodel as R
from .. import shapes as S

PROPERTY = "C10"
VIA_HISTORY_EVERY = 5      # every k-th shape case is also run on an object that reached its definition through edits
EXPLORERS = ['E1']
RULE = ("E1: targets (single curves/surfaces/volumes, rational or not, 2-D and 3-D, clamped and unclamped, and "
        "Curve/Surface/VolumeContainers of 1..3 different elements, start points away from the origin) x translation "
        "vectors x angles x axes x scale factors x inplace in {omitted,False,True} x evaluated points read before the call or not; "
        "chained ordered pairs of transforms (3 in quick, all pairs of a 9-letter alphabet in thorough); every element is "
        "compared at p+1 (2p+1 rational) parameters per span and direction with the exact affine image of the exact model "
        "of the original; non-trivial = interior knot or non-unit weight")
ASSUMPTIONS = [
    "the handedness of a positive angle is not fixed by the property: per (spatial dimension, axis) it is taken from one probe "
    "call on a 2-point line and then demanded for every point, element and call of the run",
    "rotation matrices use the binary64 sin/cos of math.radians(angle); everything else of the expected map is exact (Fractions)",
    "scaling pivots about the origin (the statement only says 'uniformly scaling'; the code multiplies control points)",
    "for containers the rotation pivot is the start point of the first element (design C10)",
    "volumes in quick use knots + 1 point per span; the control-point obligation (P' = T(P), knots/degrees/weights unchanged) "
    "decides all parameters by affine invariance",
    "tolerance 1e-9 relative to max(1,|P|)",
]
TOL = 1e-9

VECS = {3: [[1.0, -2.0, 0.5], [0.0, 0.0, 3.0], [-4.0, 0.0, 0.0], [0.0, 0.0, 0.0]],
        2: [[1.0, -2.0], [0.0, 3.0], [-4.0, 0.0], [0.0, 0.0]]}      # the null translation is a translation too
ANGLES = [30, 45, 90, -60, 180, 0]
FACTORS = [2, 0.5, -1, 2.5, 1]
OFFSETS = [[3.0, -2.0, 5.0], [-6.0, 4.0, 1.0], [2.0, 7.0, -3.0]]


def bounds(tier):
    return dict(
        quick=dict(curves='p 1..3 x {Bezier, knot 1/4} x rational x dim {2,3}; 2 unclamped', surfaces='4 degree/size combos x rational x dim {2,3}',
                   volumes='2 size triples x rational', containers='1..3 curves/surfaces, 1..2 volumes',
                   vectors=VECS[3], angles=ANGLES, axes=[0, 1, 2], factors=FACTORS, chains='3 pairs', inplace=['omitted', False, True]),
        thorough=dict(curves="p 1..4 x K'(p) level 1 x rational x dim {2,3}; unclamped p 1..3", surfaces="degrees {1,2,3}^2 x 2 knot structures",
                      volumes='6 size triples x rational', containers='1..3 elements of every kind',
                      vectors=VECS[3], angles=ANGLES, axes=[0, 1, 2], factors=FACTORS,
                      chains='all ordered pairs of {1 translation, 2 angles x axes, 2 factors}', inplace=['omitted', False, True]))[tier]


# ----------------------------------------------------------------------------------------
# alphabets
# ----------------------------------------------------------------------------------------

def _sd(kvs, degrees, rational, dim, weights='coded', **kw):
    return A.shape_desc(kvs, degrees, rational, dim, 'coded', weights, **kw)


def _kv(p, interior):
    return A.clamped_kv(p, interior)


def _targets(tier):
    q = tier == 'quick'
    T = []
    one = lambda d: T.append(dict(shapes=[d], container=False))
    # ---- single curves
    for p in (1, 2, 3) if q else (1, 2, 3, 4):
        kvs = [_kv(p, []), _kv(p, [(0.25, 1)])] if q else A.rep_kvs(p, 1)
        for kv in kvs:
            for rat in (False, True):
                for dim in (3, 2):
                    one(_sd([kv], [p], rat, dim))
    for p in (2,) if q else (1, 2, 3):
        kv = A.unclamped_kvs(p, p + 2)[0]
        for rat in (False, True):
            one(_sd([kv], [p], rat, 3, normalize_kv=False, unclamped=True))
    # ---- single surfaces (pairwise different sizes)
    combos = [((1, 2), ([], [(0.5, 1)])), ((2, 1), ([(0.25, 1)], [])), ((2, 2), ([], [(0.5, 2)])), ((1, 3), ([(0.5, 1)], []))]
    if not q:
        for pu, pv in itertools.product((1, 2, 3), repeat=2):
            for c in (((pu, pv), ([], [(0.5, 1)])), ((pu, pv), ([(0.25, 1), (0.5, 1)], []))):
                if c not in combos:
                    combos.append(c)
    for (pu, pv), (iu, iv) in combos:
        ku, kv = _kv(pu, iu), _kv(pv, iv)
        if len(ku) - pu == len(kv) - pv:
            kv = _kv(pv, iv + [(0.75, 1)])
        for rat in (False, True):
            for dim in (3, 2):
                one(_sd([ku, kv], [pu, pv], rat, dim, 'spike' if (rat and dim == 2) else 'coded'))
    # ---- single volumes
    vols = [((1, 1, 2), ([], [(0.5, 1)], [(0.5, 1)])), ((2, 1, 1), ([], [], [(0.25, 1), (0.5, 1)]))]
    if not q:
        vols += [((1, 2, 1), ([(0.5, 1)], [(0.5, 1)], [])), ((2, 2, 1), ([(0.5, 2)], [], [])),
                 ((1, 2, 2), ([], [(0.5, 1)], [])), ((2, 2, 2), ([], [(0.25, 1)], [(0.25, 1), (0.5, 1)]))]
    vdescs = []
    for degs, ints in vols:
        for rat in (False, True):
            d = _sd([_kv(p, i) for p, i in zip(degs, ints)], list(degs), rat, 3)
            vdescs.append(d)
            one(d)
    # ---- beyond the small sizes: degree up to 6 / 12 control points per direction, and shapes with more than 256 control points
    from .. import util_knots as K
    tall = K.tall_curve_shapes(tier)[1::5] + K.tall_surface_shapes(tier)[1::4] + K.huge_shapes(tier)
    for d in tall:
        one(d)
    T.append(dict(shapes=[s for s in K.huge_shapes(tier, pdims=(2,))[1:]], container=True))
    # ---- containers: 1..3 different elements, mixed rationality/degree
    c3 = [_sd([_kv(2, [(0.5, 1)])], [2], False, 3), _sd([_kv(3, [])], [3], True, 3), _sd([_kv(1, [(0.25, 1)])], [1], True, 3, 'spike')]
    c2 = [_sd([_kv(2, [])], [2], True, 2), _sd([_kv(1, [(0.5, 1)])], [1], False, 2)]
    s3 = [_sd([_kv(1, []), _kv(2, [])], [1, 2], True, 3), _sd([_kv(2, [(0.5, 1)]), _kv(1, [])], [2, 1], False, 3),
          _sd([_kv(1, [(0.5, 1)]), _kv(1, [])], [1, 1], True, 3, 'spike')]
    v3 = [vdescs[1], vdescs[2], vdescs[0]]
    for n in (1, 2, 3):
        T.append(dict(shapes=c3[:n], container=True))
        T.append(dict(shapes=s3[:n], container=True))
        if n <= 2 or not q:
            T.append(dict(shapes=v3[:n], container=True))
    T.append(dict(shapes=c2, container=True))
    T.append(dict(shapes=[c3[0], c3[0], c3[0]], container=True, pitch=VECS[3][0]))
    T.append(dict(shapes=[s3[0], s3[0]], container=True, pitch=VECS[3][1]))
    if not q:
        T.append(dict(shapes=list(reversed(c3)), container=True))
        T.append(dict(shapes=list(reversed(s3)), container=True))
        T.append(dict(shapes=[_sd([A.unclamped_kvs(2, 4)[0]], [2], True, 3, normalize_kv=False, unclamped=True), c3[0]], container=True))
    return T


def _ops(dim):
    axes = [0, 1, 2] if dim == 3 else [2]
    out = [dict(op='translate', vec=v) for v in VECS[dim]]
    # "move me by my own first / second control point": the vector is an object the shape itself holds
    out += [dict(op='translate', own=0), dict(op='translate', own=1)]
    out += [dict(op='rotate', angle=a, axis=ax) for ax in axes for a in ANGLES]
    out += [dict(op='scale', factor=f) for f in FACTORS]
    return out


def _chain_letters(dim):
    axes = [0, 1, 2] if dim == 3 else [2]
    return ([dict(op='translate', vec=VECS[dim][0])] + [dict(op='rotate', angle=a, axis=ax) for ax in axes for a in (30, 90)]
            + [dict(op='scale', factor=f) for f in (0.5, -1)])


def _chains(dim, tier):
    L = _chain_letters(dim)
    rot = [o for o in L if o['op'] == 'rotate']
    # three steps on the same object: rotate - move - rotate (and scale in between), the second rotation about the start point
    # the shape has THEN
    triples = [[rot[0], L[0], rot[-1]], [rot[-1], L[-2], rot[0]], [L[0], rot[0], L[0]]]
    if tier == 'quick':
        return [[rot[0], rot[-1]], [L[0], rot[-1]], [L[-2], rot[0]]] + triples
    return [[a, b] for a in L for b in L] + triples


def gen_cases(tier, seed):
    cases = []
    chained = []
    for tg in _targets(tier):
        dim = tg['shapes'][0]['dim']
        singles = [[o] for o in _ops(dim)]
        g1, g2 = 8, 9
        if any(s.get('huge') for s in tg['shapes']):
            # huge targets (~6 s per transform): one chain per case; first and last letter of each kind of transform
            g1, g2 = 1, 1
            keep = []
            for kind in ('translate', 'rotate', 'scale'):
                ks = [o for o in singles if o[0]['op'] == kind]
                keep += [ks[0], ks[-1]] if (tier != 'quick' or kind == 'rotate') else [ks[0]]
            singles = keep
        for grp in (singles[i:i + g1] for i in range(0, len(singles), g1)):
            cases.append(dict(target=tg, chains=grp))
        ch = _chains(dim, tier)
        if g2 == 1:
            ch = ch[:1]
        for grp in (ch[i:i + g2] for i in range(0, len(ch), g2)):
            chained.append(dict(target=tg, chains=grp))
    sessions = [dict(kind='session', name=n) for n in ('turntable', 'staircase', 'zoom')]
    return cases + chained + sessions


def case_weight(c):
    if c.get('kind') == 'session':
        return 4000
    w = 0
    for d in c['target']['shapes']:
        x = 1
        for kv, p in zip(d['kvs'], d['degrees']):
            x *= len(kv) * (p + 1)
        w += x * (4 if d['rational'] else 1)
    return w * len(c['chains'])


# ----------------------------------------------------------------------------------------
# exact affine maps  x -> M x + t
# ----------------------------------------------------------------------------------------

def _ident(dim):
    return [[F(int(i == j)) for j in range(dim)] for i in range(dim)], [F(0)] * dim


def _apply(T, x):
    M, t = T
    return tuple(sum((M[i][j] * x[j] for j in range(len(x))), F(0)) + t[i] for i in range(len(x)))


def _compose(T2, T1):
    """T2 after T1"""
    M2, t2 = T2
    M1, t1 = T1
    n = len(t1)
    M = [[sum((M2[i][k] * M1[k][j] for k in range(n)), F(0)) for j in range(n)] for i in range(n)]
    t = [sum((M2[i][k] * t1[k] for k in range(n)), F(0)) + t2[i] for i in range(n)]
    return M, t


def _rot_map(dim, axis, angle, sign, pivot):
    """rotation by sign*angle (right-handed for sign=+1) about coordinate axis `axis` through `pivot`"""
    rot = math.radians(angle)
    c, s = F(math.cos(rot)), F(math.sin(rot)) * sign
    M, _ = _ident(dim)
    i, j = ((axis + 1) % 3, (axis + 2) % 3) if dim == 3 else (0, 1)
    M[i][i], M[i][j], M[j][i], M[j][j] = c, -s, s, c
    Rp = _apply((M, [F(0)] * dim), pivot)
    return M, [pivot[k] - Rp[k] for k in range(dim)]


_SIGNS = {}


def _sign(dim, axis):
    """handedness the library uses for (dim, axis): one probe call, then demanded everywhere"""
    key = (dim, axis)
    if key not in _SIGNS:
        from geomdl import BSpline, operations
        c = BSpline.Curve()
        c.degree = 1
        c.ctrlpts = [[1.0, 2.0, 3.0][:dim], [2.0, 5.0, 7.0][:dim]]
        c.knotvector = [0.0, 0.0, 1.0, 1.0]
        r = operations.rotate(c, 90, axis=axis)
        got = list(r.ctrlpts[1])
        piv = tuple(F(x) for x in [1.0, 2.0, 3.0][:dim])
        res = None
        for sg in (1, -1):
            e = _apply(_rot_map(dim, axis, 90, sg, piv), tuple(F(x) for x in [2.0, 5.0, 7.0][:dim]))
            if all(abs(float(a) - b) < 1e-9 for a, b in zip(e, got)):
                res = sg
        _SIGNS[key] = res
    return _SIGNS[key]


def _op_map(op, dim, pivot, own=None):
    """exact map of one letter; pivot = exact current start point of the (first) shape; None if no handedness fits;
    own = exact current position of the control point an `own` translation takes as its vector"""
    if op['op'] == 'translate':
        M, _ = _ident(dim)
        return M, ([F(x) for x in own] if 'own' in op else [F(x) for x in op['vec']])
    if op['op'] == 'scale':
        M, t = _ident(dim)
        f = F(op['factor'])
        return [[f * x for x in row] for row in M], t
    sg = _sign(dim, op['axis'])
    if sg is None:
        return None
    return _rot_map(dim, op['axis'], op['angle'], sg, pivot)


def _cart0(d0, k):
    """exact Cartesian position of control point k of a definition"""
    P = d0['P'][k]
    return [F(x) / F(P[-1]) for x in P[:-1]] if d0['rational'] else [F(x) for x in P]


def _call(op, obj, inplace):
    """inplace None = keyword omitted ('without the in-place option')"""
    from geomdl import operations
    kw = {} if inplace is None else dict(inplace=inplace)
    if op['op'] == 'translate':
        if 'own' in op:
            # the vector is one of the shape's own control points, handed over as the very list the view returned
            src = obj if hasattr(obj, 'ctrlpts') and hasattr(obj, 'degree') else list(obj)[0]
            return operations.translate(obj, src.ctrlpts[op['own']], **kw)
        return operations.translate(obj, list(op['vec']), **kw)
    if op['op'] == 'scale':
        return operations.scale(obj, op['factor'], **kw)
    return operations.rotate(obj, op['angle'], axis=op['axis'], **kw)


# ----------------------------------------------------------------------------------------
# building and reading
# ----------------------------------------------------------------------------------------

def _build_target(tg, seed):
    from geomdl import multi
    elems = []
    for k, d in enumerate(tg['shapes']):
        pts = A.make_net(d['sizes'], d['dim'], 'coded', seed)
        off = OFFSETS[k % 3][:d['dim']]
        if tg.get('pitch'):
            # element k is element 0 shifted k times by the pitch vector (a row of copies: B == T(A) for the translation T)
            off = [o + k * v for o, v in zip(OFFSETS[0][:d['dim']], tg['pitch'])]
        d2 = dict(d, points=[[c + o for c, o in zip(p, off)] for p in pts])
        elems.append(S.build(d2, seed))
    if not tg['container']:
        return elems[0], elems
    cls = {1: multi.CurveContainer, 2: multi.SurfaceContainer, 3: multi.VolumeContainer}[tg['shapes'][0]['pdim']]
    return cls(*elems), elems


def _upts(d):
    """exact unweighted control points and weights of a definition"""
    if d['rational']:
        return [tuple(c / h[-1] for c in h[:-1]) for h in d['P']], [h[-1] for h in d['P']]
    return [tuple(h) for h in d['P']], None


def _psets(d, desc, tier):
    sets = []
    pd = len(d['degrees'])
    for U, p in zip(d['kvs'], d['degrees']):
        per = (2 * p + 1) if d['rational'] else (p + 1)
        if pd == 3 and tier == 'quick':
            per = 1
        sets.append(A.params_for(p, [float(x) for x in U], per_span=per, extras=(pd == 1)))
    return sets


def _elem_ns(e):
    """sampling grid sizes per direction, as the element itself reports them"""
    if e.pdimension == 1:
        return (e.sample_size,)
    if e.pdimension == 2:
        return (e.sample_size_u, e.sample_size_v)
    return (e.sample_size_u, e.sample_size_v, e.sample_size_w)


class _Grids(object):
    """exact points of the sampling grid (n_u x n_v x n_w, library evalpts order) of the original elements"""
    def __init__(self, defs):
        self.defs, self.cache = defs, {}

    def get(self, k, ns):
        key = (k, tuple(ns))
        if key not in self.cache:
            d = self.defs[k]
            grids = [[lo + (hi - lo) * F(i, n - 1) for i in range(n)] for (lo, hi), n in zip(R.corner_params(d), ns)]
            self.cache[key] = [R.eval_point(d, prm) for prm in itertools.product(*grids)]
        return self.cache[key]


GRID_N = 3


def _read_evalpts(obj, elems, container):
    """what a user reads as 'the evaluated points'"""
    out = []
    for e in elems:
        e.sample_size = GRID_N
        out.append(len(e.evalpts))
    if container:
        obj.sample_size = GRID_N
        out.append(len(obj.evalpts))
    return out


def _feat_ops(chain):
    f = dict(op=chain[-1]['op'] if len(chain) == 1 else 'chain', ops=[o['op'] for o in chain], chain_len=len(chain))
    last = chain[-1]
    for k in ('axis', 'angle', 'factor', 'vec', 'own'):
        if k in last:
            f[k] = last[k]
    return f


# ----------------------------------------------------------------------------------------

def _session_cases(name, tier):
    """long sessions: a turntable (0..180 degrees and back in 5-degree steps: 37 distinct angles, every one revisited), a
    translation staircase and a zoom, each on one small rational shape; every step is judged like any other transform"""
    crv = dict(shapes=[_sd([_kv(2, [(0.5, 1)])], [2], True, 3)], container=False)
    srf = dict(shapes=[_sd([_kv(1, []), _kv(2, [(0.5, 1)])], [1, 2], True, 3)], container=False)
    up = list(range(0, 181, 5))
    angles = up + up[-2::-1]
    if name == 'turntable':
        return [dict(target=crv if i % 2 == 0 else srf, chains=[[dict(op='rotate', angle=float(a), axis=i % 3)]], inplace=[False],
                     pre_read=[False]) for i, a in enumerate(angles)]
    if name == 'staircase':
        return [dict(target=crv, chains=[[dict(op='translate', vec=[float(k), 0.5 * k, -1.0 * (k % 7)])]], inplace=[False, True],
                     pre_read=[False]) for k in range(1, 71)]
    return [dict(target=srf, chains=[[dict(op='scale', factor=1.0 + k / 16.0)]], inplace=[False], pre_read=[False]) for k in range(1, 71)]


def run_case(case, ctx):
    if case.get('kind') == 'session':
        import sys
        return core.run_session(sys.modules[__name__], ctx, case, _session_cases(case['name'], ctx.tier), 12)
    tg = case['target']
    seed = ctx.seed
    descs = tg['shapes']
    dim = descs[0]['dim']
    pdim = descs[0]['pdim']
    cont = bool(tg['container'])
    base = dict(pdim=pdim, dim=dim, container=cont, n_elements=len(descs), any_rational=any(d['rational'] for d in descs),
                unclamped=any(d.get('unclamped') for d in descs))
    ctx.state(dict(t=tg), nontrivial=any(A.is_nontrivial(d) for d in descs))

    # exact model of the original, once per case
    obj0, elems0 = _build_target(tg, seed)
    defs0 = [R.def_from_obj(e) for e in elems0]
    psets = case.get('params') or [_psets(d0, d, ctx.tier) for d0, d in zip(defs0, descs)]
    plists = [list(itertools.product(*ps)) for ps in psets]
    pts0 = [[R.eval_point(d0, prm) for prm in pl] for d0, pl in zip(defs0, plists)]
    grid0 = _Grids(defs0)
    up0 = [_upts(d0) for d0 in defs0]
    start0 = R.eval_point(defs0[0], [lo for lo, hi in R.corner_params(defs0[0])])

    for chain in case['chains']:
        # expected exact map; the pivot of a rotation is the start point of the shape *at that moment*
        T = _ident(dim)
        for op in chain:
            step = _op_map(op, dim, _apply(T, start0), _apply(T, _cart0(defs0[0], op['own'])) if 'own' in op else None)
            T = None if step is None else _compose(step, T)
            if T is None:
                break
        fo = dict(base, **_feat_ops(chain))
        name = 'C10.' + fo['op']
        if T is None:
            ctx.check(name + '.handedness', False, dict(case, chains=[chain]), fo, '+angle or -angle', None,
                      'the probe rotation matches neither handedness')
            continue
        ctx.check(name + '.handedness', True)
        for inplace in case.get('inplace', [None, False, True]):
            for pre in case.get('pre_read', [False] if inplace is None else [False, True, 'segment']):
                rc = dict(case, chains=[chain], inplace=[inplace], pre_read=[pre])
                f = dict(fo, inplace=inplace, pre_read=pre)
                _one(ctx, name, tg, chain, inplace, pre, T, rc, f, defs0, plists, pts0, grid0, up0, descs, seed)


def _one(ctx, name, tg, chain, inplace, pre, T, rc, f, defs0, plists, pts0, grid0, up0, descs, seed):
    cont = bool(tg['container'])
    obj, elems = _build_target(tg, seed)
    if pre == 'segment':
        # the documented segment evaluation evaluate(start=, stop=) leaves a sub-range in the sampled points of each element
        for e in elems:
            pd_ = e.pdimension
            kvs_ = [e.knotvector] if pd_ == 1 else list(e.knotvector)
            dg_ = [e.degree] if pd_ == 1 else list(e.degree)
            rng = [(kv[p] + (kv[-(p + 1)] - kv[p]) * 0.25, kv[p] + (kv[-(p + 1)] - kv[p]) * 0.75) for kv, p in zip(kvs_, dg_)]
            if pd_ == 1:
                e.evaluate(start=rng[0][0], stop=rng[0][1])
            else:
                kw = {}
                for a, nm in enumerate('uvw'[:pd_]):
                    kw['start_' + nm], kw['stop_' + nm] = rng[a]
                e.evaluate(**kw)
    elif pre:
        _read_evalpts(obj, elems, cont)
        if cont:
            # an unfinished earlier iteration over the container must not influence the next one
            for _e in obj:
                break
            next(iter(obj))
    snaps = [S.snapshot(e) for e in elems]
    cur = obj
    ok_id = True
    for op in chain:
        res = _call(op, cur, inplace)
        ok_id = ok_id and ((res is cur) if inplace else (res is not cur and res is not obj))
        cur = res
    ctx.check(name + '.returns', ok_id, rc, f, 'same object' if inplace else 'new object', None)
    if not inplace:
        ctx.check(name + '.input_unchanged', [S.snapshot(e) for e in elems] == snaps and
                  (not cont or (len(obj) == len(elems) and all(a is b for a, b in zip(list(obj), elems)))), rc, f,
                  'input definition unchanged', None)
        after = cur
    else:
        after = obj        # "the same object is updated"
    new_elems = [e for e in after] if cont else [after]
    if not ctx.check(name + '.structure', len(new_elems) == len(elems), rc, f, len(elems), len(new_elems)):
        return
    for k, (e, d0) in enumerate(zip(new_elems, defs0)):
        fk = dict(f, element=k, rational=descs[k]['rational'], degrees=descs[k]['degrees'])
        d1 = R.def_from_obj(e)
        same = (d1['degrees'] == d0['degrees'] and d1['kvs'] == d0['kvs'] and d1['sizes'] == d0['sizes']
                and d1['rational'] == d0['rational'] and e.dimension == descs[k]['dim'] and type(e) is type(elems[k]))
        if not ctx.check(name + '.structure', same, rc, fk, 'degrees, knots, sizes, kind unchanged',
                         dict(degrees=d1['degrees'], sizes=d1['sizes'])):
            continue
        P1, w1 = _upts(d1)
        P0, w0 = up0[k]
        if d0['rational']:
            ctx.check(name + '.weights', w1 == w0 and [F(x) for x in e.weights] == w0, rc, fk, w0, w1)
        expP = [_apply(T, p) for p in P0]
        scale = max(1.0, max(abs(float(c)) for p in expP for c in p))
        ctx.close(name + '.ctrlpts', P1, expP, TOL, scale, rc, fk)
        ctx.outcome((f['op'], tuple(round(float(c), 6) for c in expP[-1])))
        # library evaluation of the result (start, one interior parameter, end), caches included
        pl = plists[k]
        for idx in sorted({0, len(pl) // 2, len(pl) - 1}):
            prm = pl[idx]
            got = e.evaluate_single(prm[0] if len(prm) == 1 else list(prm))
            ctx.close(name + '.library_eval', got, _apply(T, pts0[k][idx]), TOL, scale, rc, fk)
        if pre:
            # the points the user read before must have moved too
            got = [list(p) for p in e.evalpts]
            ctx.close(name + '.evalpts', got, [_apply(T, p) for p in grid0.get(k, _elem_ns(e))], TOL, scale, rc, fk)
            continue
        # the deciding comparison: exact model of the result against the exact image of the exact model
        exp = [_apply(T, p) for p in pts0[k]]
        got = [R.eval_point(d1, prm) for prm in pl]
        ctx.close(name + '.points', got, exp, TOL, scale, rc, fk)
    if not inplace:
        # after the result's views were read: the input's unweighted points / weights are still its own
        for k, e0 in enumerate(elems):
            P0, w0 = up0[k]
            got = [[F(c) for c in p] for p in e0.ctrlpts]
            okv = got == [list(p) for p in P0]
            if descs[k]['rational']:
                _ = [list(p) for p in new_elems[k].ctrlpts]
                okv = okv and [F(x) for x in e0.weights] == list(w0) and [[F(c) for c in p] for p in e0.ctrlpts] == [list(p) for p in P0]
            ctx.check(name + '.input_views_unchanged', okv, rc, dict(f, element=k, rational=descs[k]['rational']),
                      'input ctrlpts/weights unchanged after reading the result', None)
    if cont:
        # evaluated points of the container itself
        fc = dict(f, element=None)
        try:
            if not pre:
                after.sample_size = GRID_N      # (pre: already set before the call; setting it again would reset the cache)
            got = [list(p) for p in after.evalpts]
            exp = [_apply(T, p) for k, e in enumerate(new_elems) for p in grid0.get(k, _elem_ns(e))]
        except Exception as ex:  # noqa - reported, not swallowed
            ctx.check(name + '.container_evalpts', False, rc, fc, 'evaluated points of the transformed container',
                      repr(ex), 'container.evalpts raised')
        else:
            scale = max(1.0, max(abs(float(c)) for p in exp for c in p))
            ctx.close(name + '.container_evalpts', got, exp, TOL, scale, rc, fc)

"""C02 - derivatives returned are the true derivatives of the shape (explorer E1)."""
import itertools
import math
from fractions import Fraction as F

from .. import alphabet as A
from .. import refmodel as R
from .. import shapes as S

PROPERTY = "C02"
VIA_HISTORY_EVERY = 13      # every k-th shape case is also run on an object that reached its definition through edits
EXPLORERS = ['E1']
RULE = ("E1: curves and surfaces x rational/non-rational x degrees x knot vectors (K(p,B,G) for curves, K'(p) Cartesian "
        "products for surfaces, unclamped, affine non-normalised images with normalize_kv on/off) x pairwise different "
        "sizes x nets (coded, unit, seeded) x weights x every parameter of the alphabet (all knots, both ends, dyadic "
        "points per span, 1/3 and 7/8) x derivative orders 0..max degree+2 x every evaluator family installed through the "
        "public evaluator setter; hodograph constructors, tangent (single/list, normalised or not) and normal at the same "
        "parameters; non-trivial = interior knot or non-unit weight")
ASSUMPTIONS = [
    "derivative convention: from the right at interior knots, from the left at the end of the domain (the polynomial piece "
    "of the span the definition assigns to the parameter)",
    "tolerance 1e-9 relative to max(1, |exact|, max|P| * (w_max/w_min) * prod (p/h_min)^k); unit length within 1e-12",
    "entries [k][l] with k+l > order of a surface result are unspecified and not compared",
    "hodograph constructors are only defined by the library for non-rational shapes of degree >= 2 per differentiated direction "
    "(degree-0 shapes cannot be represented); rational input returns the input unchanged and is not judged",
    "normalisation obligations are skipped exactly where the exact vector is zero (decided in Q); the library may raise there",
    "operations.normal is not implemented for curves (GeomdlException), nothing is demanded there",
    "the exact model itself (mc/refmodel.py: polynomial pieces by Cox-de Boor, power-series quotient) is trusted; it is self-tested at every start",
]
TOL = 1e-9
UNIT_TOL = 1e-12

CURVE_EVALS = {False: ['default', 'CurveEvaluator', 'CurveEvaluator2'], True: ['default', 'CurveEvaluatorRational']}
SURF_EVALS = {False: ['default', 'SurfaceEvaluator', 'SurfaceEvaluator2'], True: ['default', 'SurfaceEvaluatorRational']}
PARTS = ('derivs', 'hodograph', 'tangent', 'normal')


def bounds(tier):
    return dict(
        quick=dict(curves='p<=3 over K(p,2,4), every unit net; unclamped p<=3; 4 affine ranges x normalize on/off (p=2,3)',
                   surfaces="degrees {1,2,3}^2 over K'(p) level 1 (pairwise different sizes), knots+ends+1 point per span+1/3",
                   orders='0..max degree+2', evaluators='default + every family of evaluators.py'),
        thorough=dict(curves='p<=5 over K(p,3,8) (p<=2), K(3,2,8), K(4,2,4), K(5,2,4)',
                      surfaces="degrees {1,2,3}^2 over full K'(p), p+1 points per span; degrees (4,2),(2,4),(5,3),(3,5),(4,5) over 3 reps",
                      orders='0..max degree+2', evaluators='default + every family of evaluators.py'))[tier]


# ----------------------------------------------------------------------------------------
# enumeration
# ----------------------------------------------------------------------------------------

def _variants(kvs, degrees, tier, units):
    sizes = [len(kv) - p - 1 for kv, p in zip(kvs, degrees)]
    out = [A.shape_desc(kvs, degrees, False, 3, 'coded'),
           A.shape_desc(kvs, degrees, True, 3, 'coded', 'coded'),
           A.shape_desc(kvs, degrees, True, 2, 'seeded', 'spike'),
           A.shape_desc(kvs, degrees, False, 2, 'seeded')]
    if tier == 'thorough':
        out.append(A.shape_desc(kvs, degrees, True, 3, 'seeded', 'seeded'))
    if units:
        for m in A.unit_indices(sizes, units == 'all'):
            out.append(A.shape_desc(kvs, degrees, False, 2 if len(kvs) == 2 else 3, 'unit:%d' % m))
    return out


def _tall_pairs(tall, q):
    """a high-degree / long direction paired with a small one, both orders"""
    small = [(1, A.clamped_kv(1, [(0.5, 1)])), (2, A.clamped_kv(2, []))]
    big = [t for t in tall if (t[0] >= 4 and len(t[1]) <= 2 * (t[0] + 1) + 2) or (t[0] in (1, 3) and len(t[1]) - t[0] - 1 in (7, 9))]
    if q:
        big = big[::2]
    out = []
    for i, b in enumerate(big):
        s_ = small[i % 2]
        out.append((b, s_) if i % 2 == 0 else (s_, b))
    return out


def gen_cases(tier, seed):
    q = tier == 'quick'
    cases = []
    # ---- curves
    plan = [(1, 2, 4), (2, 2, 4), (3, 2, 4)] if q else [(1, 3, 8), (2, 3, 8), (3, 2, 8), (4, 2, 4), (5, 2, 4)]
    for p, B, G in plan:
        for kv in A.clamped_kvs(p, B, G):
            for d in _variants([kv], [p], tier, 'all'):
                cases.append(dict(shape=d))
    for p in range(1, 4 if q else 6):
        for n in (p + 1, p + 3):
            for kv in A.unclamped_kvs(p, n):
                for rat in (False, True):
                    cases.append(dict(shape=A.shape_desc([kv], [p], rat, 3, 'coded', 'coded'), unclamped=True))
    for p in (2, 3):
        for kv in A.rep_kvs(p, 1 if q else 2):
            for a, s in A.AFFINE[1:]:
                for norm in (True, False):
                    for rat in (False, True):
                        cases.append(dict(shape=A.shape_desc([A.affine_kv(kv, a, s)], [p], rat, 3, 'coded', 'coded',
                                                             normalize_kv=norm), affine=[a, s]))
    # ---- the tall thin slice: degrees up to 6 and up to 12 (thorough 20) control points over few knot vectors, so that
    # code which only differs for high degree, high derivative order or long knot vectors is entered in every run
    tall = A.tall_kvs(1 if q else 2)
    for p, kv in tall:
        for rat in (False, True):
            cases.append(dict(shape=A.shape_desc([kv], [p], rat, 3, 'coded', 'coded'), sparse=True, tall=True))
    for (pu, ku), (pv, kv) in _tall_pairs(tall, q):
        for rat in (False, True):
            cases.append(dict(shape=A.shape_desc([ku, kv], [pu, pv], rat, 3, 'coded', 'coded'), sparse=True, tall=True,
                              parts=['derivs']))
    # ---- data variety: coordinates, weights, knots, dimensions and input types outside the small-integer world
    from .. import util_knots as K
    for d in K.variety_shapes(tier, pdims=(1, 2)):
        cases.append(dict(shape=d, variety=True, sparse=d['pdim'] == 2))
    # ---- tensor-product circular-arc weights on Bezier and one-knot nets: mixed weight derivatives are exactly zero on midlines
    for pu, pv in ((2, 2), (2, 3)):
        for ku, kv_ in ((A.clamped_kv(pu, []), A.clamped_kv(pv, [])), (A.clamped_kv(pu, [(0.5, 1)]), A.clamped_kv(pv, []))):
            cases.append(dict(shape=A.shape_desc([ku, kv_], [pu, pv], True, 3, 'coded', 'arc'), parts=['derivs'],
                              params=[[0.0, 0.25, 0.5, 0.75, 1.0], [0.0, 0.25, 0.5, 1.0]]))
    # ---- surfaces
    degs = [1, 2, 3]
    for pu, pv in itertools.product(degs, degs):
        for ku in A.rep_kvs(pu, 1 if q else 2):
            for kv in A.rep_kvs(pv, 1 if q else 2):
                su, sv = len(ku) - pu - 1, len(kv) - pv - 1
                if su == sv and pu == pv and q:
                    continue      # symmetric sizes mask u/v mix-ups; thorough keeps them too
                vs = _variants([ku, kv], [pu, pv], tier, 'some')
                for d in (vs[:4] + vs[-2:] if q else vs):
                    cases.append(dict(shape=d))
    if not q:
        for pu, pv in ((4, 2), (2, 4), (5, 3), (3, 5), (4, 5)):
            for ku in A.rep_kvs(pu, 1)[:3]:
                for kv in A.rep_kvs(pv, 1)[:3]:
                    if len(ku) - pu == len(kv) - pv:
                        continue
                    for d in _variants([ku, kv], [pu, pv], tier, None)[:3]:
                        cases.append(dict(shape=d, sparse=True))
    # surfaces: unclamped and affine non-normalised
    for pu, pv in ((1, 2), (2, 1), (2, 3)):
        ku = A.unclamped_kvs(pu, pu + 2)[0]
        kv = A.rep_kvs(pv, 1)[1]
        for rat in (False, True):
            cases.append(dict(shape=A.shape_desc([ku, kv], [pu, pv], rat, 3, 'coded', 'coded'), unclamped=True))
        for a, s in A.AFFINE[1:]:
            for norm in (True, False):
                base = [A.rep_kvs(pu, 1)[2], kv]
                cases.append(dict(shape=A.shape_desc([A.affine_kv(base[0], a, s), A.affine_kv(base[1], 1.0, 2.0)], [pu, pv],
                                                     False, 3, 'coded', normalize_kv=norm), affine=[a, s]))
    for pu, pv in ((2, 3), (3, 2)):
        for a, s in A.AFFINE[1:3]:
            for norm in (True, False):
                base = [A.rep_kvs(pu, 1)[1], A.rep_kvs(pv, 1)[2]]
                cases.append(dict(shape=A.shape_desc([A.affine_kv(base[0], a, s), A.affine_kv(base[1], 1.0, 2.0)], [pu, pv],
                                                     True, 3, 'coded', 'coded', normalize_kv=norm), affine=[a, s]))
    # ---- the documented alternative span search selected at construction (derivatives are taken from the right at knots
    # whichever search is used)
    for p in (1, 2, 3):
        for kv in A.clamped_kvs(p, 2, 4):
            if len(kv) > 2 * (p + 1):
                cases.append(dict(shape=A.shape_desc([kv], [p], p == 2, 3, 'coded', 'coded'), binsearch=True, parts=['derivs', 'tangent']))
    for pu, pv in ((2, 1), (1, 3), (3, 2)):
        ku, kv = A.rep_kvs(pu, 2)[-2], A.rep_kvs(pv, 2)[-1]
        cases.append(dict(shape=A.shape_desc([ku, kv], [pu, pv], pu == 3, 3, 'coded', 'coded'), binsearch=True, parts=['derivs']))
    # ---- read - mutate - read: queries first on the original knot vectors, then the interior knots are moved
    # (x -> x*x keeps the vector clamped, sorted, of the same length and multiplicities) and everything is judged again
    def moved(kv):
        return [x * x for x in kv]
    for p in (2, 3):
        for kv in A.rep_kvs(p, 1)[1:]:
            for rat in (False, True):
                cases.append(dict(shape=A.shape_desc([kv], [p], rat, 3, 'coded', 'coded'), edit_kvs=[moved(kv)],
                                  parts=['derivs', 'tangent']))
    for pu, pv in ((2, 1), (2, 3)):
        ku, kv = A.rep_kvs(pu, 1)[1], A.rep_kvs(pv, 1)[2]
        for rat in (False, True):
            cases.append(dict(shape=A.shape_desc([ku, kv], [pu, pv], rat, 3, 'coded', 'coded'), edit_kvs=[moved(ku), moved(kv)],
                              parts=['derivs', 'tangent', 'normal']))
    return cases


def case_weight(c):
    d = c['shape']
    w = 1
    for kv, p in zip(d['kvs'], d['degrees']):
        w *= len(kv) * (p + 1)
    return w * (3 if d['rational'] else 2) * (max(d['degrees']) + 3)


# ----------------------------------------------------------------------------------------
# small exact / float helpers
# ----------------------------------------------------------------------------------------

def _negligible(v, thr):
    """exact decision: every component of the exact vector is within thr of zero (thr = 1e-6 * natural scale); there the
    normalised vector is ill-defined in floating point (and normalisation may legitimately raise)"""
    return all(abs(x) <= thr for x in v)


DEGENERATE = 1e-6


def _vscale(scale, exact):
    """a derivative VECTOR is judged relative to its own largest component as well (with weight ratios of 25000 the a-priori
    scale underestimates high derivatives of rational shapes by many orders of magnitude; a component that is tiny only by
    cancellation is not computable to a relative accuracy of its own)"""
    return max(float(scale), max(abs(float(x)) for x in exact))


def _norm(v):
    return math.sqrt(sum(float(x) ** 2 for x in v))


def _pad3(v):
    v = list(v)
    return v + [0] * (3 - len(v))


def _cross(a, b):
    a, b = _pad3(a), _pad3(b)
    return (a[1] * b[2] - a[2] * b[1], a[2] * b[0] - a[0] * b[2], a[0] * b[1] - a[1] * b[0])


def _dotf(a, b):
    return sum(float(x) * float(y) for x, y in zip(a, b))


def _vec_ok(v, n):
    try:
        return len(v) == n and all(isinstance(float(x), float) for x in v)
    except (TypeError, ValueError):
        return False


def _install(obj, name):
    from geomdl import evaluators
    if name != 'default':
        obj.evaluator = getattr(evaluators, name)()
    return obj.evaluator.__class__.__name__


def _setup(case, ctx):
    """object, exact model, per-direction parameter sets, scale data, common features"""
    desc = case['shape']
    seed = ctx.seed
    if case.get('binsearch'):
        from geomdl import helpers
        obj = S.build(desc, seed, find_span_func=helpers.find_span_binsearch)
    else:
        obj = S.build(desc, seed)
    pd = desc['pdim']
    if case.get('edit_kvs'):
        # read - mutate - read: every query is first made on the object with its ORIGINAL knot vectors (at the parameters
        # that will be judged later), then the knot vectors are replaced through the public setters; everything below
        # judges the edited object against the exact model of its new definition
        _warm_up(obj, case, desc)
        if pd == 1:
            obj.knotvector = list(case['edit_kvs'][0])
        else:
            obj.knotvector_u = list(case['edit_kvs'][0])
            obj.knotvector_v = list(case['edit_kvs'][1])
    model = R.def_from_obj(obj)
    degs = list(model['degrees'])
    kvs_f = [list(obj.knotvector)] if pd == 1 else [list(k) for k in obj.knotvector]
    psets = case.get('params')
    if not psets:
        psets = []
        for kv, p in zip(kvs_f, degs):
            if pd == 1 and not case.get('sparse'):
                psets.append(A.params_for(p, kv, per_span=(2 * p + 1) if desc['rational'] else (p + 1)))
            elif ctx.tier == 'quick' or case.get('sparse'):
                psets.append(A.few_params(p, kv))
            else:
                psets.append(A.params_for(p, kv, per_span=p + 1, extras=True))
    # parameters are passed as floats, the documented type (knots given as ints would otherwise come back as int parameters,
    # and tangent / normal tell a single (u, v) pair from a list of pairs by isinstance(params[0], float))
    psets = [[float(u) for u in ps] for ps in psets]
    pts, w, _ = S.net_points(desc, seed)
    maxP = max(1.0, max(abs(c) for p_ in pts for c in p_))
    wr = (max(w) / min(w)) if desc['rational'] else 1.0
    hmin, c0 = [], []
    for U, p in zip(model['kvs'], degs):
        n = len(U) - p - 1
        hmin.append(min(float(U[i + 1] - U[i]) for i in range(p, n) if U[i] < U[i + 1]))
        c0.append(any(R.multiplicity(U, x) >= p for x in set(U[p + 1:n])))
    feats = dict(pdim=pd, rational=desc['rational'], degrees=degs, degree=max(degs), dim=desc['dim'],
                 domain01=all(R.domain(p, U) == (0, 1) for p, U in zip(degs, model['kvs'])),
                 full_mult_knot=any(c0), full_mult_knot_u=c0[0], full_mult_knot_v=c0[-1] if pd > 1 else False,
                 net=desc['net'].split(':')[0], weights=desc.get('weights', 'ones'),
                 normalize_kv=desc.get('normalize_kv', True), unclamped=bool(case.get('unclamped')),
                 affine=bool(case.get('affine')), after_edit=bool(case.get('edit_kvs')), binsearch=bool(case.get('binsearch')))
    ctx.state(dict(d=desc, s=seed if 'seeded' in (desc['net'], desc.get('weights')) else 0),
              nontrivial=A.is_nontrivial(desc))

    rawP = max(abs(c) for p_ in pts for c in p_) or 1.0

    def scale(ks, floor=True):
        # floor=True: scale of the absolute tolerance; floor=False: natural size of the derivative for the data as they are
        # (the decision 'this vector is degenerate' must not depend on the unit of length of the model)
        s = maxP if floor else rawP
        for p, h, k in zip(degs, hmin, ks):
            s *= (p / h) ** k
        return max(1.0, s * wr) if floor else s * wr
    return obj, model, psets, scale, feats


def _warm_up(obj, case, desc):
    from geomdl import operations
    pd = desc['pdim']
    sets = [A.params_for(p, kv, per_span=p + 1) for p, kv in zip(desc['degrees'], case['edit_kvs'])]
    maxo = max(desc['degrees']) + 2
    import itertools
    for ev in (case.get('evaluators') or ['default']):
        _install(obj, ev)
        for prm in itertools.product(*sets):
            for order in range(maxo + 1):
                try:
                    if pd == 1:
                        obj.derivatives(prm[0], order)
                    else:
                        obj.derivatives(prm[0], prm[1], order)
                except Exception:
                    pass
            try:
                obj.evaluate_single(prm[0] if pd == 1 else list(prm))
                operations.tangent(obj, prm[0] if pd == 1 else list(prm))
            except Exception:
                pass
    _ = obj.evalpts, obj.bbox


def _pfeats(feats, model, prm):
    at_knot, at_end = False, False
    for x, U, p in zip(prm, model['kvs'], model['degrees']):
        n = len(U) - p - 1
        xf = F(x)
        if xf == U[n]:
            at_end = True
        elif xf in U[p + 1:n]:
            at_knot = True
    return dict(feats, at_knot=at_knot, at_end=at_end)


def run_case(case, ctx):
    if case['shape']['pdim'] == 1:
        _curve_case(case, ctx)
    else:
        _surface_case(case, ctx)


# ----------------------------------------------------------------------------------------
# curves
# ----------------------------------------------------------------------------------------

def _curve_case(case, ctx):
    from geomdl import operations
    from geomdl.exceptions import GeomdlException
    desc = case['shape']
    obj, model, psets, scale, feats = _setup(case, ctx)
    p = model['degrees'][0]
    dim = desc['dim']
    maxo = p + 2
    params = list(psets[0])
    parts = case.get('parts') or PARTS
    evs = case.get('evaluators') or CURVE_EVALS[desc['rational']]
    orders = case.get('orders') or list(range(maxo + 1))
    E = {u: R.eval_derivs(model, (F(u),), maxo + 1) for u in params}
    pf = {u: _pfeats(feats, model, (u,)) for u in params}

    for ev in evs:
        evname = _install(obj, ev)
        fe = dict(evaluator=evname, installed=(ev != 'default'))
        if 'derivs' in parts:
            for u in params:
                for order in orders:
                    f = dict(pf[u], order=order, order_gt_degree=order > p, **fe)
                    rc = dict(case, params=[[u]], evaluators=[ev], orders=[order], parts=['derivs'])
                    try:
                        if case.get('edit_kvs'):
                            # the SAME query immediately before and after the edit (single-entry memoisation)
                            obj.knotvector = list(desc['kvs'][0])
                            obj.derivatives(u, order)
                            obj.knotvector = list(case['edit_kvs'][0])
                        D = obj.derivatives(u, order)
                    except Exception as e:  # noqa - reported, not swallowed
                        ctx.check('C02.curve.derivs.no_exception', False, rc, f, 'a result', repr(e))
                        continue
                    ctx.check('C02.curve.derivs.no_exception', True, rc, f)
                    ok = (isinstance(D, (list, tuple)) and len(D) == order + 1 and all(_vec_ok(v, dim) for v in D))
                    if not ctx.check('C02.curve.derivs.shape', ok, rc, f, [order + 1, dim],
                                     [len(D), [len(v) if hasattr(v, '__len__') else None for v in D]]
                                     if isinstance(D, (list, tuple)) else repr(D)):
                        continue
                    for k in range(order + 1):
                        fk = dict(f, k=k)
                        ctx.close('C02.curve.derivs.value', list(D[k]), E[u][(k,)], TOL, _vscale(scale((k,)), E[u][(k,)]), rc, fk)
                        if k > p and not desc['rational']:
                            ctx.check('C02.curve.derivs.zero_above_degree', all(float(x) == 0.0 for x in D[k]), rc, fk,
                                      0.0, list(D[k]))
                    ctx.outcome((evname, order, tuple(round(float(x), 6) for x in D[-1])))
        if 'tangent' in parts:
            _curve_tangent(case, ctx, obj, params, E, pf, fe, ev, scale, dim)
    if 'normal' in parts:
        # not implemented for curves: the documented rejection, nothing else is demanded
        try:
            operations.normal(obj, params[0])
            ctx.extra['curve_normal_returned'] += 1
        except GeomdlException:
            ctx.extra['curve_normal_not_implemented'] += 1
    if 'hodograph' in parts and not desc['rational'] and p >= 2:
        _curve_hodograph(case, ctx, obj, model, params, E, pf, scale, maxo)


def _curve_tangent(case, ctx, obj, params, E, pf, fe, ev, scale, dim):
    from geomdl import operations
    for normalize in (False, True):
        singles = {}
        usable = []
        for u in params:
            exact = E[u][(1,)]
            zero = _negligible(exact, F(DEGENERATE * scale((1,), floor=False)))
            f = dict(pf[u], normalize=normalize, variant='single', degenerate=zero, **fe)
            rc = dict(case, params=[[u]], evaluators=[ev], parts=['tangent'])
            if normalize and zero:
                ctx.extra['tangent_zero_skipped'] += 1
                continue
            usable.append(u)
            try:
                res = operations.tangent(obj, u, normalize=normalize)
            except Exception as e:  # noqa
                ctx.check('C02.curve.tangent.no_exception', False, rc, f, 'a result', repr(e))
                continue
            singles[u] = res
            _judge_tangent_curve(ctx, res, E[u], normalize, rc, f, scale, dim)
        if not usable:
            continue
        f = dict(pf[usable[0]], normalize=normalize, variant='list', **fe)
        f.pop('at_knot'), f.pop('at_end')
        rc = dict(case, params=[usable], evaluators=[ev], parts=['tangent'])
        try:
            lst = operations.tangent(obj, list(usable), normalize=normalize)
        except Exception as e:  # noqa
            ctx.check('C02.curve.tangent.no_exception', False, rc, f, 'a result', repr(e))
            continue
        if not ctx.check('C02.curve.tangent.list_shape', isinstance(lst, (list, tuple)) and len(lst) == len(usable), rc, f,
                         len(usable), len(lst) if hasattr(lst, '__len__') else repr(lst)):
            continue
        for u, res in zip(usable, lst):
            f2 = dict(pf[u], normalize=normalize, variant='list', degenerate=False, **fe)
            _judge_tangent_curve(ctx, res, E[u], normalize, dict(rc, list_member=u), f2, scale, dim)


def _judge_tangent_curve(ctx, res, Eu, normalize, rc, f, scale, dim):
    ok = isinstance(res, (list, tuple)) and len(res) == 2 and all(_vec_ok(v, dim) for v in res)
    if not ctx.check('C02.curve.tangent.shape', ok, rc, f, '(point, vector)', repr(res)[:200]):
        return
    pt, vec = res
    ctx.close('C02.curve.tangent.point', list(pt), Eu[(0,)], TOL, scale((0,)), rc, f)
    if not normalize:
        ctx.close('C02.curve.tangent.vector', list(vec), Eu[(1,)], TOL, scale((1,)), rc, f)
    else:
        ctx.check('C02.curve.tangent.unit', abs(_norm(vec) - 1.0) <= UNIT_TOL, rc, f, 1.0, _norm(vec))
        n = _norm(Eu[(1,)])
        ctx.close('C02.curve.tangent.direction', [float(x) * n for x in vec], Eu[(1,)], TOL, scale((1,)), rc, f)


def _curve_hodograph(case, ctx, obj, model, params, E, pf, scale, maxo):
    from geomdl import operations
    p = model['degrees'][0]
    f = dict(pf[params[0]])
    f.pop('at_knot'), f.pop('at_end')
    rc = dict(case, parts=['hodograph'])
    try:
        h = operations.derivative_curve(obj)
        hm = R.def_from_obj(h)
    except Exception as e:  # noqa
        ctx.check('C02.curve.hodograph.no_exception', False, rc, f, 'a derivative curve', repr(e))
        return
    ctx.check('C02.curve.hodograph.no_exception', True, rc, f)
    n = model['sizes'][0]
    ctx.check('C02.curve.hodograph.structure',
              hm['degrees'] == (p - 1,) and hm['sizes'] == (n - 1,) and len(hm['kvs'][0]) == len(model['kvs'][0]) - 2
              and not hm['rational'] and len(hm['P'][0]) == len(model['P'][0]), rc, f,
              dict(degree=p - 1, size=n - 1, knots=len(model['kvs'][0]) - 2),
              dict(degree=hm['degrees'], size=hm['sizes'], knots=len(hm['kvs'][0])))
    dom, hdom = R.domain(p, model['kvs'][0]), R.domain(hm['degrees'][0], hm['kvs'][0])
    same_dom = ctx.check('C02.curve.hodograph.domain', dom == hdom, rc, f, [float(x) for x in dom], [float(x) for x in hdom],
                         'the derivative curve must live on the parameter domain of the curve')
    for u in params:
        uf = F(u)
        if not (hdom[0] <= uf <= hdom[1]):
            continue
        if not same_dom and (uf == hdom[0] or uf == hdom[1]):
            continue
        fu = dict(pf[u])
        rcu = dict(case, params=[[u]], parts=['hodograph'])
        try:
            H = R.eval_derivs(hm, (uf,), maxo)
        except (ValueError, IndexError, ZeroDivisionError) as e:
            ctx.check('C02.curve.hodograph.structure', False, rcu, fu, 'an evaluable derivative curve', repr(e))
            continue
        for k in range(maxo + 1):
            ctx.close('C02.curve.hodograph.value', [float(x) for x in H[(k,)]], E[u][(k + 1,)], TOL, scale((k + 1,)), rcu,
                      dict(fu, k=k))


# ----------------------------------------------------------------------------------------
# surfaces
# ----------------------------------------------------------------------------------------

def _surface_case(case, ctx):
    desc = case['shape']
    obj, model, psets, scale, feats = _setup(case, ctx)
    pu, pv = model['degrees']
    dim = desc['dim']
    maxo = max(pu, pv) + 2
    plist = list(itertools.product(*psets))
    parts = case.get('parts') or PARTS
    evs = case.get('evaluators') or SURF_EVALS[desc['rational']]
    if ctx.tier == 'quick' and not case.get('evaluators'):
        evs = evs[1:]       # the constructor's own evaluator object is exercised on surfaces in the thorough tier (and on curves)
    orders = case.get('orders') or list(range(maxo + 1))
    E = {prm: R.eval_derivs(model, (F(prm[0]), F(prm[1])), maxo) for prm in plist}
    pf = {prm: _pfeats(feats, model, prm) for prm in plist}

    for ev in evs:
        evname = _install(obj, ev)
        fe = dict(evaluator=evname, installed=(ev != 'default'))
        if 'derivs' in parts:
            # the constructor's own evaluator object is the same class as the first installed family: extreme orders only
            ev_orders = orders if (ev != 'default' or case.get('orders')) else sorted({0, 1, 2, maxo})
            for prm in plist:
                for order in ev_orders:
                    f = dict(pf[prm], order=order, order_gt_degree_u=order > pu, order_gt_degree_v=order > pv,
                             order_gt_degree=order > min(pu, pv), **fe)
                    rc = dict(case, params=[[prm[0]], [prm[1]]], evaluators=[ev], orders=[order], parts=['derivs'])
                    try:
                        if case.get('edit_kvs'):
                            # the SAME query immediately before and after the edit (single-entry memoisation)
                            obj.knotvector_u, obj.knotvector_v = list(desc['kvs'][0]), list(desc['kvs'][1])
                            obj.derivatives(prm[0], prm[1], order)
                            obj.knotvector_u, obj.knotvector_v = list(case['edit_kvs'][0]), list(case['edit_kvs'][1])
                        D = obj.derivatives(prm[0], prm[1], order)
                    except Exception as e:  # noqa - reported, not swallowed
                        ctx.check('C02.surface.derivs.no_exception', False, rc, f, 'a result', repr(e))
                        continue
                    ctx.check('C02.surface.derivs.no_exception', True, rc, f)
                    ok = isinstance(D, (list, tuple)) and len(D) == order + 1
                    if ok:
                        for k in range(order + 1):
                            row = D[k]
                            if not (isinstance(row, (list, tuple)) and len(row) >= order + 1 - k
                                    and all(_vec_ok(row[l], dim) for l in range(order + 1 - k))):
                                ok = False
                    if not ctx.check('C02.surface.derivs.shape', ok, rc, f, 'order+1 rows, entries [k][l] for k+l<=order',
                                     repr(D)[:300]):
                        continue
                    for k in range(order + 1):
                        for l in range(order + 1 - k):
                            fk = dict(f, k=k, l=l)
                            ctx.close('C02.surface.derivs.value', list(D[k][l]), E[prm][(k, l)], TOL, _vscale(scale((k, l)), E[prm][(k, l)]), rc, fk)
                            if (k > pu or l > pv) and not desc['rational']:
                                ctx.check('C02.surface.derivs.zero_above_degree', all(float(x) == 0.0 for x in D[k][l]),
                                          rc, fk, 0.0, list(D[k][l]))
                    ctx.outcome((evname, order, tuple(round(float(x), 6) for x in D[order][0]),
                                 tuple(round(float(x), 6) for x in D[0][order])))
        if 'tangent' in parts:
            _surface_tangent(case, ctx, obj, plist, E, pf, fe, ev, scale, dim)
        if 'normal' in parts and dim in (2, 3):
            _surface_normal(case, ctx, obj, plist, E, pf, fe, ev, scale, dim)
    if 'hodograph' in parts and not desc['rational'] and pu >= 2 and pv >= 2:
        _surface_hodograph(case, ctx, obj, model, plist, E, pf, scale, maxo)


def _surface_tangent(case, ctx, obj, plist, E, pf, fe, ev, scale, dim):
    from geomdl import operations
    for normalize in (False, True):
        usable = []
        for prm in plist:
            zero = (_negligible(E[prm][(1, 0)], F(DEGENERATE * scale((1, 0), floor=False)))
                    or _negligible(E[prm][(0, 1)], F(DEGENERATE * scale((0, 1), floor=False))))
            f = dict(pf[prm], normalize=normalize, variant='single', degenerate=zero, **fe)
            rc = dict(case, params=[[prm[0]], [prm[1]]], evaluators=[ev], parts=['tangent'])
            if normalize and zero:
                ctx.extra['tangent_zero_skipped'] += 1
                continue
            usable.append(prm)
            try:
                res = operations.tangent(obj, [prm[0], prm[1]], normalize=normalize)
            except Exception as e:  # noqa
                ctx.check('C02.surface.tangent.no_exception', False, rc, f, 'a result', repr(e))
                continue
            _judge_tangent_surface(ctx, res, E[prm], normalize, rc, f, scale, dim)
        if not usable or case.get('params'):
            continue
        f = dict(pf[usable[0]], normalize=normalize, variant='list', **fe)
        f.pop('at_knot'), f.pop('at_end')
        rc = dict(case, evaluators=[ev], parts=['tangent'])
        try:
            lst = operations.tangent(obj, [list(prm) for prm in usable], normalize=normalize)
        except Exception as e:  # noqa
            ctx.check('C02.surface.tangent.no_exception', False, rc, f, 'a result', repr(e))
            continue
        if not ctx.check('C02.surface.tangent.list_shape', isinstance(lst, (list, tuple)) and len(lst) == len(usable), rc, f,
                         len(usable), len(lst) if hasattr(lst, '__len__') else repr(lst)):
            continue
        for prm, res in zip(usable, lst):
            f2 = dict(pf[prm], normalize=normalize, variant='list', degenerate=False, **fe)
            _judge_tangent_surface(ctx, res, E[prm], normalize, dict(rc, list_member=list(prm)), f2, scale, dim)


def _judge_tangent_surface(ctx, res, Ep, normalize, rc, f, scale, dim):
    ok = isinstance(res, (list, tuple)) and len(res) == 3 and all(_vec_ok(v, dim) for v in res)
    if not ctx.check('C02.surface.tangent.shape', ok, rc, f, '(point, vector_u, vector_v)', repr(res)[:200]):
        return
    pt, tu, tv = res
    ctx.close('C02.surface.tangent.point', list(pt), Ep[(0, 0)], TOL, scale((0, 0)), rc, f)
    for name, vec, key in (('u', tu, (1, 0)), ('v', tv, (0, 1))):
        fd = dict(f, direction=name)
        if not normalize:
            ctx.close('C02.surface.tangent.vector', list(vec), Ep[key], TOL, scale(key), rc, fd)
        else:
            ctx.check('C02.surface.tangent.unit', abs(_norm(vec) - 1.0) <= UNIT_TOL, rc, fd, 1.0, _norm(vec))
            n = _norm(Ep[key])
            ctx.close('C02.surface.tangent.direction', [float(x) * n for x in vec], Ep[key], TOL, scale(key), rc, fd)


def _surface_normal(case, ctx, obj, plist, E, pf, fe, ev, scale, dim):
    from geomdl import operations
    for normalize in (False, True):
        usable = []
        for prm in plist:
            exact = _cross(E[prm][(1, 0)], E[prm][(0, 1)])
            zero = _negligible(exact, F(DEGENERATE * scale((1, 0), floor=False) * scale((0, 1), floor=False)))
            f = dict(pf[prm], normalize=normalize, variant='single', degenerate=zero, **fe)
            rc = dict(case, params=[[prm[0]], [prm[1]]], evaluators=[ev], parts=['normal'])
            if normalize and zero:
                ctx.extra['normal_zero_skipped'] += 1
                continue
            usable.append(prm)
            try:
                res = operations.normal(obj, [prm[0], prm[1]], normalize=normalize)
            except Exception as e:  # noqa
                ctx.check('C02.surface.normal.no_exception', False, rc, f, 'a result', repr(e))
                continue
            _judge_normal(ctx, res, E[prm], exact, normalize, rc, f, scale, dim)
        if not usable or case.get('params'):
            continue
        f = dict(pf[usable[0]], normalize=normalize, variant='list', **fe)
        f.pop('at_knot'), f.pop('at_end')
        rc = dict(case, evaluators=[ev], parts=['normal'])
        try:
            lst = operations.normal(obj, [list(prm) for prm in usable], normalize=normalize)
        except Exception as e:  # noqa
            ctx.check('C02.surface.normal.no_exception', False, rc, f, 'a result', repr(e))
            continue
        if not ctx.check('C02.surface.normal.list_shape', isinstance(lst, (list, tuple)) and len(lst) == len(usable), rc, f,
                         len(usable), len(lst) if hasattr(lst, '__len__') else repr(lst)):
            continue
        for prm, res in zip(usable, lst):
            f2 = dict(pf[prm], normalize=normalize, variant='list', degenerate=False, **fe)
            exact = _cross(E[prm][(1, 0)], E[prm][(0, 1)])
            _judge_normal(ctx, res, E[prm], exact, normalize, dict(rc, list_member=list(prm)), f2, scale, dim)


def _judge_normal(ctx, res, Ep, exact, normalize, rc, f, scale, dim):
    ok = isinstance(res, (list, tuple)) and len(res) == 2 and _vec_ok(res[0], dim) and _vec_ok(res[1], 3)
    if not ctx.check('C02.surface.normal.shape', ok, rc, f, '(point, 3-vector)', repr(res)[:200]):
        return
    pt, vec = res
    su, sv = Ep[(1, 0)], Ep[(0, 1)]
    ctx.close('C02.surface.normal.point', list(pt), Ep[(0, 0)], TOL, scale((0, 0)), rc, f)
    if not normalize:
        ctx.close('C02.surface.normal.vector', list(vec), exact, TOL, scale((1, 0)) * scale((0, 1)), rc, f)
        return
    ctx.check('C02.surface.normal.unit', abs(_norm(vec) - 1.0) <= UNIT_TOL, rc, f, 1.0, _norm(vec))
    nu, nv, nn = _norm(su), _norm(sv), _norm(exact)
    # conditioning of the direction of a cross product computed in binary64: (rounding of Su, Sv) / |Su x Sv|
    tol = TOL * max(1.0, scale((1, 0)) * scale((0, 1)) / nn)
    du, dv = _dotf(vec, _pad3(su)) / nu, _dotf(vec, _pad3(sv)) / nv
    ctx.check('C02.surface.normal.orthogonal', abs(du) <= tol and abs(dv) <= tol, rc, f, [0.0, 0.0], [du, dv])
    ctx.close('C02.surface.normal.orientation', [float(x) * nn for x in vec], exact, TOL, scale((1, 0)) * scale((0, 1)), rc, f,
              'normalised normal must be +(Su x Sv)/|Su x Sv|')


def _surface_hodograph(case, ctx, obj, model, plist, E, pf, scale, maxo):
    from geomdl import operations
    pu, pv = model['degrees']
    su, sv = model['sizes']
    f = dict(pf[plist[0]])
    f.pop('at_knot'), f.pop('at_end')
    rc = dict(case, parts=['hodograph'])
    try:
        hs = operations.derivative_surface(obj)
        hms = [R.def_from_obj(h) for h in hs]
    except Exception as e:  # noqa
        ctx.check('C02.surface.hodograph.no_exception', False, rc, f, 'three derivative surfaces', repr(e))
        return
    ctx.check('C02.surface.hodograph.no_exception', True, rc, f)
    if not ctx.check('C02.surface.hodograph.count', len(hms) == 3, rc, f, 3, len(hms)):
        return
    doms = tuple(R.domain(p, U) for p, U in zip(model['degrees'], model['kvs']))
    spec = (('u', (1, 0)), ('v', (0, 1)), ('uv', (1, 1)))
    for (name, sh), hm in zip(spec, hms):
        fh = dict(f, which=name)
        want = dict(degrees=(pu - sh[0], pv - sh[1]), sizes=(su - sh[0], sv - sh[1]),
                    knots=(len(model['kvs'][0]) - 2 * sh[0], len(model['kvs'][1]) - 2 * sh[1]))
        got = dict(degrees=hm['degrees'], sizes=hm['sizes'], knots=tuple(len(k) for k in hm['kvs']))
        ctx.check('C02.surface.hodograph.structure', want == got and not hm['rational']
                  and len(hm['P'][0]) == len(model['P'][0]) and len(hm['P']) == want['sizes'][0] * want['sizes'][1],
                  rc, fh, want, got)
        try:
            hdoms = tuple(R.domain(p, U) for p, U in zip(hm['degrees'], hm['kvs']))
        except IndexError:
            continue
        same_dom = ctx.check('C02.surface.hodograph.domain', doms == hdoms, rc, fh,
                             [[float(x) for x in d] for d in doms], [[float(x) for x in d] for d in hdoms],
                             'the derivative surface must live on the parameter domain of the surface')
        K = maxo - sh[0] - sh[1]
        for prm in plist:
            pfz = (F(prm[0]), F(prm[1]))
            if not all(lo <= x <= hi for x, (lo, hi) in zip(pfz, hdoms)):
                continue
            if not same_dom and any(x in d for x, d in zip(pfz, hdoms)):
                continue
            fu = dict(pf[prm], which=name)
            rcu = dict(case, params=[[prm[0]], [prm[1]]], parts=['hodograph'])
            try:
                H = R.eval_derivs(hm, pfz, K)
            except (ValueError, IndexError, ZeroDivisionError) as e:
                ctx.check('C02.surface.hodograph.structure', False, rcu, fu, 'an evaluable derivative surface', repr(e))
                continue
            for (k, l), val in H.items():
                key = (k + sh[0], l + sh[1])
                ctx.close('C02.surface.hodograph.value', [float(x) for x in val], E[prm][key], TOL, scale(key), rcu,
                          dict(fu, k=k, l=l))

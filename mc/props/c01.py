"""C01 - evaluated points equal the B-spline/NURBS definition (explorer E1)."""
import copy
import itertools
from fractions import Fraction as F

from .. import alphabet as A
from .. import refmodel as R
from .. import shapes as S

PROPERTY = "C01"
VIA_HISTORY_EVERY = 7      # every k-th shape case is also run on an object that reached its definition through edits
RULE = ("E1: parametric dimension 1..3 x rational/non-rational x degrees x knot vectors (K(p,B,G) for curves, K'(p) "
        "Cartesian products for surfaces/volumes, unclamped, affine non-normalised images with normalize_kv on/off) x "
        "pairwise different sizes x nets (coded, unit, seeded) x weights; every entry point (evaluate_single, "
        "evaluate_list, derivatives(order 0), evalpts grid, Evaluator.evaluate) at p+1 dyadic parameters per span and "
        "direction plus all knots/ends; non-trivial = interior knot or non-unit weight")
ASSUMPTIONS = [
    "on one knot span the shape is polynomial (rational: quotient of polynomials) of degree p per direction, so agreement at "
    "p+1 (2p+1) parameters per span and direction decides the span",
    "for fixed knots evaluation is linear in the homogeneous control net: unit nets + a coded net decide all nets up to rounding",
    "tolerance 1e-9 relative to max(1,|P|)",
]
TOL = 1e-9
SAMPLE_SIZES = dict(quick=[2, 3, 5, 8, 50], thorough=[2, 3, 4, 5, 7, 12, 40, 50, 99, 104])


def bounds(tier):
    return dict(
        quick=dict(curves='p<=3 over K(p,2,4), unclamped p<=3, 5 affine ranges x normalize on/off',
                   surfaces="degrees {1,2,3}^2 over K'(p) level 1", volumes="degrees {1,2}^3 over 3 reps",
                   sample_sizes=SAMPLE_SIZES['quick']),
        thorough=dict(curves='p<=5 over K(p,3,8) (p<=3), K(p,3,4) (p=4,5)', surfaces="degrees {1,2,3}^2 over full K'(p)",
                      volumes="degrees {1,2,3}^3 over 3-4 reps, every unit net for volumes with <= 24 control points, corner/edge/interior unit nets for larger ones", sample_sizes=SAMPLE_SIZES['thorough']))[tier]


# ----------------------------------------------------------------------------------------

def _variants(kvs, degrees, tier, full_units=False):
    """shape descriptors over one knot structure"""
    out = []
    sizes = [len(kv) - p - 1 for kv, p in zip(kvs, degrees)]
    lowdim = 3 if len(kvs) == 3 else 2      # volumes must be at least 3-D
    out.append(A.shape_desc(kvs, degrees, False, 3, 'coded'))
    out.append(A.shape_desc(kvs, degrees, True, 3, 'coded', 'coded'))
    out.append(A.shape_desc(kvs, degrees, True, lowdim, 'seeded', 'spike'))
    out.append(A.shape_desc(kvs, degrees, False, lowdim, 'seeded'))
    if tier == 'thorough':
        out.append(A.shape_desc(kvs, degrees, True, 3, 'seeded', 'seeded'))
    if len(kvs) == 1:
        out.append(A.shape_desc(kvs, degrees, False, 5, 'coded'))
    for m in A.unit_indices(sizes, full_units):
        out.append(A.shape_desc(kvs, degrees, False, lowdim, 'unit:%d' % m))
    return out


def gen_cases(tier, seed):
    cases = []
    q = tier == 'quick'
    # ---- curves
    plan = [(1, 2, 4), (2, 2, 4), (3, 2, 4)] if q else [(1, 3, 8), (2, 3, 8), (3, 3, 8), (4, 3, 4), (5, 2, 4)]
    for p, B, G in plan:
        for kv in A.clamped_kvs(p, B, G):
            for d in _variants([kv], [p], tier, full_units=True):
                cases.append(dict(shape=d, grid=True))
    for p in range(1, 4 if q else 6):
        for n in (p + 1, p + 3):
            for kv in A.unclamped_kvs(p, n):
                for rat in (False, True):
                    cases.append(dict(shape=A.shape_desc([kv], [p], rat, 3, 'coded', 'coded'), grid=True, unclamped=True))
    for p in (1, 2, 3):
        for kv in A.rep_kvs(p, 1 if q else 2):
            for a, s in A.AFFINE[1:]:
                for norm in (True, False):
                    for rat in (False, True):
                        cases.append(dict(shape=A.shape_desc([A.affine_kv(kv, a, s)], [p], rat, 3, 'coded', 'coded',
                                                             normalize_kv=norm), grid=True, affine=[a, s], base=[kv]))
    # ---- the tall thin slice: degree up to 6, up to 12 (thorough 20) control points per direction over few knot vectors
    from .. import util_knots as K
    for d in K.tall_curve_shapes(tier) + K.tall_surface_shapes(tier):
        cases.append(dict(shape=d, grid=True, tall=True))
    # ---- data variety: coordinates, weights, knots, dimensions and input types outside the small-integer world
    for d in K.variety_shapes(tier):
        cases.append(dict(shape=d, grid=True, variety=True))
    for d in K.tiny_span_shapes(tier):
        cases.append(dict(shape=d, grid=True, variety=True, knots_as_params=True))
    for (p, kv) in A.tall_kvs(1, degrees=(1, 4), counts=(7,)):
        cases.append(dict(shape=A.shape_desc([A.clamped_kv(1, [(0.5, 1)]), A.clamped_kv(2, []), kv], [1, 2, p], p == 1, 3, 'coded', 'coded'),
                          grid=False, tall=True))
    # ---- surfaces
    degs = [1, 2, 3]
    for pu, pv in itertools.product(degs, degs):
        for ku in A.rep_kvs(pu, 1 if q else 2):
            for kv in A.rep_kvs(pv, 1 if q else 2):
                su, sv = len(ku) - pu - 1, len(kv) - pv - 1
                if su == sv and pu == pv and q:
                    continue   # symmetric sizes mask u/v mix-ups; thorough keeps them too
                for d in _variants([ku, kv], [pu, pv], tier, full_units=not q)[:None if not q else 5]:
                    cases.append(dict(shape=d, grid=(pu + pv) <= 4))
    # surfaces: unclamped + affine
    for pu, pv in ((1, 2), (2, 1), (2, 3)):
        ku = A.unclamped_kvs(pu, pu + 2)[0]
        kv = A.rep_kvs(pv, 1)[1]
        cases.append(dict(shape=A.shape_desc([ku, kv], [pu, pv], True, 3, 'coded', 'coded'), grid=True, unclamped=True))
        for a, s in A.AFFINE[1:]:
            for norm in (True, False):
                base = [A.rep_kvs(pu, 1)[2], kv]
                cases.append(dict(shape=A.shape_desc([A.affine_kv(base[0], a, s), A.affine_kv(base[1], 1.0, 2.0)], [pu, pv],
                                                     False, 3, 'coded', normalize_kv=norm), grid=True, affine=[a, s], base=base))
    # ---- volumes
    vdeg = [1, 2] if q else [1, 2, 3]
    for pu, pv, pw in itertools.product(vdeg, vdeg, vdeg):
        if not q and pu + pv + pw > 7:
            continue
        reps = lambda p: A.rep_kvs(p, 1)[:3] if q else A.rep_kvs(p, 1)[:4]
        for ku, kv, kw in itertools.product(reps(pu), reps(pv), reps(pw)):
            sz = (len(ku) - pu - 1, len(kv) - pv - 1, len(kw) - pw - 1)
            if len(set(sz)) < 3 and (q or len(set(sz)) < 2):
                continue
            vs = _variants([ku, kv, kw], [pu, pv, pw], tier, full_units=(not q) and sz[0] * sz[1] * sz[2] <= 24)   # every unit net for small volumes
            for d in (vs[:2] + vs[-2:]) if q else vs:
                cases.append(dict(shape=d, grid=(pu + pv + pw) <= 4))
    # volumes whose directions have different domains: unclamped in one direction, and non-normalised ranges per direction
    for (pu, pv, pw) in ((1, 2, 1), (2, 1, 1), (1, 1, 2)):
        kvs = [A.rep_kvs(pu, 1)[1], A.rep_kvs(pv, 1)[0], A.rep_kvs(pw, 1)[2]]
        for a in range(3):
            k2 = list(kvs)
            k2[a] = A.unclamped_kvs([pu, pv, pw][a], [pu, pv, pw][a] + 2)[0]
            for rat in (False, True):
                cases.append(dict(shape=A.shape_desc(k2, [pu, pv, pw], rat, 3, 'coded', 'coded'), grid=True, unclamped=True))
        for norm in (True, False):
            aff = [A.affine_kv(kvs[0], 0.0, 2.0), A.affine_kv(kvs[1], 1.0, 2.0), A.affine_kv(kvs[2], -1.0, 4.0)]
            cases.append(dict(shape=A.shape_desc(aff, [pu, pv, pw], False, 3, 'coded', normalize_kv=norm), grid=True,
                              affine=[0.0, 2.0], base=kvs))
    return cases


def case_weight(c):
    d = c['shape']
    w = 1
    for kv, p in zip(d['kvs'], d['degrees']):
        w *= len(kv) * (p + 1)
    return w * (3 if d['rational'] else 1)


# ----------------------------------------------------------------------------------------

def _param_sets(desc, kvs_eff, tier):
    pd = desc['pdim']
    sets = []
    for kv, p in zip(kvs_eff, desc['degrees']):
        per = (2 * p + 1) if desc['rational'] else (p + 1)
        if pd == 1:
            sets.append(A.params_for(p, kv, per_span=per))
        elif pd == 2:
            sets.append(A.params_for(p, kv, per_span=per if tier == 'thorough' else p + 1, extras=(tier == 'thorough')))
        else:
            sets.append(A.params_for(p, kv, per_span=(p + 1) if tier == 'thorough' else 1, extras=False))
    return sets


def run_case(case, ctx):
    desc = case['shape']
    tier = ctx.tier
    seed = ctx.seed
    pd = desc['pdim']
    obj = S.build(desc, seed)
    norm = desc.get('normalize_kv', True)
    # effective knot vectors: what the definition says the object works on
    if norm:
        kvs_eff = []
        for kv in desc['kvs']:
            lo, hi = F(kv[0]), F(kv[-1])
            kvs_eff.append([float((F(k) - lo) / (hi - lo)) for k in kv])
    else:
        kvs_eff = [list(kv) for kv in desc['kvs']]
    pts, w, pw = S.net_points(desc, seed)
    model = R.shape_def(desc['degrees'], kvs_eff, desc['sizes'], pw if desc['rational'] else pts, desc['rational'])
    scale = max(1.0, max(abs(c) for p in pts for c in p))
    dom_len = [float(U[-(p + 1)] - U[p]) for U, p in zip(model['kvs'], desc['degrees'])]
    feats = dict(pdim=pd, rational=desc['rational'], degrees=desc['degrees'], normalize_kv=norm,
                 unclamped=bool(case.get('unclamped')), domain_length_1=all(abs(x - 1.0) < 1e-12 for x in dom_len),
                 net=desc['net'].split(':')[0])
    ctx.state(dict(d=desc, s=seed if desc['net'] == 'seeded' or desc.get('weights') == 'seeded' else 0),
              nontrivial=A.is_nontrivial(desc))
    rc = dict(case)
    # stored knot vectors are the normalised ones
    got_kvs = [list(obj.knotvector)] if pd == 1 else [list(k) for k in obj.knotvector]
    ctx.close('C01.knotvector.stored', got_kvs, kvs_eff, 1e-15, 1.0, rc, feats)

    psets = case.get('params') or _param_sets(desc, kvs_eff, tier)
    plist = list(itertools.product(*psets))
    exp = {}
    for prm in plist:
        exp[prm] = R.eval_point(model, [F(x) for x in prm])
    # -- evaluate_single / derivatives(order 0)
    for prm in plist:
        arg = prm[0] if pd == 1 else list(prm)
        got = obj.evaluate_single(arg)
        f2 = dict(feats, at_end=any(x == float(U[-(p + 1)]) for x, U, p in zip(prm, model['kvs'], desc['degrees'])))
        ctx.close('C01.evaluate_single', got, exp[prm], TOL, scale, dict(rc, params=[[x] for x in prm]), f2)
        ctx.outcome(tuple(round(float(x), 6) for x in exp[prm]))
        if pd == 1:
            d0 = obj.derivatives(prm[0], 0)
            ctx.check('C01.derivatives0.shape', len(d0) == 1, rc, f2, 1, len(d0))
            ctx.close('C01.derivatives0', d0[0], exp[prm], TOL, scale, dict(rc, params=[[x] for x in prm]), f2)
        elif pd == 2:
            d0 = obj.derivatives(prm[0], prm[1], 0)
            ctx.close('C01.derivatives0', d0[0][0], exp[prm], TOL, scale, dict(rc, params=[[x] for x in prm]), f2)
    # -- the same entry points with the documented alternative evaluator installed (non-rational curves and surfaces)
    if pd <= 2 and not desc['rational']:
        from geomdl import evaluators
        alt = copy.deepcopy(obj)
        alt.evaluator = evaluators.CurveEvaluator2() if pd == 1 else evaluators.SurfaceEvaluator2()
        for prm in plist[:: max(1, len(plist) // 9)]:
            f2 = dict(feats, evaluator='alternative')
            rc2 = dict(rc, params=[[x] for x in prm])
            try:
                if pd == 1:
                    got, d0 = alt.evaluate_single(prm[0]), alt.derivatives(prm[0], 0)[0]
                else:
                    got, d0 = alt.evaluate_single(list(prm)), alt.derivatives(prm[0], prm[1], 0)[0][0]
            except Exception as e:
                ctx.check('C01.alternative_evaluator.derivatives0', False, rc2, f2, 'a point', repr(e))
                continue
            ctx.close('C01.alternative_evaluator.evaluate_single', got, exp[prm], TOL, scale, rc2, f2)
            ctx.close('C01.alternative_evaluator.derivatives0', d0, exp[prm], TOL, scale, rc2, f2)
    # -- evaluate_list
    args = [p[0] for p in plist] if pd == 1 else [list(p) for p in plist]
    got = obj.evaluate_list(args)
    ctx.close('C01.evaluate_list', got, [exp[p] for p in plist], TOL, scale, rc, feats)
    # -- Evaluator.evaluate called directly with start = stop
    for prm in plist[:: max(1, len(plist) // 7)]:
        if pd == 1:
            g = obj.evaluator.evaluate(obj.data, start=prm[0], stop=prm[0])
        else:
            g = obj.evaluator.evaluate(obj.data, start=list(prm), stop=list(prm))
        ctx.close('C01.evaluator.direct', g[0] if g else None, exp[prm], TOL, scale, dict(rc, params=[[x] for x in prm]), feats)
    # -- sampled grid
    if case.get('grid', True):
        _grid(case, ctx, obj, model, desc, pts, scale, feats)
    # -- a shallow copy that is edited and evaluated must not change what the original evaluates to
    if desc['net'] == 'coded' and not case.get('params'):
        import copy as _copy
        snap0 = S.snapshot(obj)
        c2 = _copy.copy(obj)
        other = [[c + 3.0 for c in p] for p in (pw if desc['rational'] else pts)]
        if pd == 1:
            c2.set_ctrlpts(other)
        else:
            c2.set_ctrlpts(other, *desc['sizes'])
        probe = plist[len(plist) // 2]
        arg = probe[0] if pd == 1 else list(probe)
        c2.evaluate_single(arg)
        c2.evaluate_list([arg])
        if pd <= 2:
            (c2.derivatives(arg, 0) if pd == 1 else c2.derivatives(arg[0], arg[1], 0))
        # shallow copies share mutable internals by design, so editing one may legitimately edit the other; the
        # obligation only applies while the original's definition, read through the public API, is still the same
        try:
            same_def = S.snapshot(obj) == snap0
        except Exception:
            same_def = False
        if same_def:
            ctx.close('C01.after_shallow_copy_edit', [obj.evaluate_single(arg), obj.evaluate_list([arg])[0]],
                      [exp[probe], exp[probe]], TOL, scale, dict(rc, params=[[x] for x in probe]), feats)
        else:
            ctx.extra['shallow_copy_edit_changed_original_definition'] += 1
            pass


def _grid(case, ctx, obj, model, desc, pts, scale, feats):
    pd = desc['pdim']
    sizes_all = case.get('sample_sizes') or SAMPLE_SIZES[ctx.tier]
    doms = [R.domain(p, U) for p, U in zip(model['degrees'], model['kvs'])]
    combos = []
    if pd == 1:
        combos = [(n,) for n in sizes_all]
    elif pd == 2:
        combos = [(2, 3), (3, 2), (5, 4)] if ctx.tier == 'quick' else [(2, 3), (3, 2), (5, 4), (4, 7), (12, 5), (40, 3)]
    else:
        combos = [(2, 3, 4), (3, 2, 2)] if ctx.tier == 'quick' else [(2, 3, 4), (4, 3, 2), (3, 5, 2)]
    if case.get('sample_sizes'):
        combos = [tuple(c) for c in case['sample_sizes']]
    clamped = all(R.multiplicity(U, U[0]) >= p + 1 and R.multiplicity(U, U[-1]) >= p + 1
                  for U, p in zip(model['kvs'], model['degrees']))
    # per-direction re-sampling: after a grid with sizes `a` was read, only the directions that differ are set
    steps = [(None, ns) for ns in combos]
    if pd >= 2 and not case.get('sample_sizes'):
        for a, b in ([((3, 4), (3, 3)), ((4, 3), (3, 3)), ((3, 4), (4, 4))] if pd == 2 else
                     [((2, 3, 4), (2, 3, 2)), ((3, 2, 2), (3, 3, 2)), ((2, 3, 4), (4, 3, 4))]):
            steps.append((None, a))
            steps.append((a, b))
    elif case.get('resample'):
        steps = [(None, tuple(case['resample'][0])), (tuple(case['resample'][0]), tuple(case['resample'][1]))]
    for prev, ns in steps:
        rc = dict(case, sample_sizes=[list(ns)], params=[[0.0]] * pd)
        if prev is not None:
            rc = dict(case, resample=[list(prev), list(ns)], params=[[0.0]] * pd)
        f = dict(feats, sample=list(ns))
        if pd == 1:
            obj.sample_size = ns[0]
        else:
            for a, nm in enumerate('uvw'[:pd]):
                if prev is None or prev[a] != ns[a]:
                    setattr(obj, 'sample_size_' + nm, ns[a])
        if prev is None and ns == steps[0][1]:
            # a partial evaluation (documented to load a segment) followed by evaluate() must give the whole grid again
            half = [(lo, lo + (hi - lo) / 2) for lo, hi in doms]
            try:
                if pd == 1:
                    obj.evaluate(start=float(half[0][0]), stop=float(half[0][1]))
                elif pd == 2:
                    obj.evaluate(start_u=float(half[0][0]), stop_u=float(half[0][1]), start_v=float(half[1][0]), stop_v=float(half[1][1]))
                else:
                    obj.evaluate(start_u=float(half[0][0]), stop_u=float(half[0][1]), start_v=float(half[1][0]), stop_v=float(half[1][1]),
                                 start_w=float(half[2][0]), stop_w=float(half[2][1]))
                obj.evaluate()
            except Exception as e:
                ctx.check('C01.grid.partial_then_full', False, rc, f, 'evaluate() after a partial evaluate()', repr(e))
        ep = obj.evalpts
        total = 1
        for n in ns:
            total *= n
        if not ctx.check('C01.grid.size', len(ep) == total, rc, f, total, len(ep)):
            continue
        # ordering and values
        grids = [[lo + (hi - lo) * F(i, n - 1) for i in range(n)] for (lo, hi), n in zip(doms, ns)]
        ok_all = True
        exp_list = []
        for idx in itertools.product(*[range(n) for n in ns]):
            if pd == 1:
                flat = idx[0]
            elif pd == 2:
                flat = idx[1] + ns[1] * idx[0]
            else:
                flat = idx[2] + ns[2] * (idx[1] + ns[1] * idx[0])
            exp_list.append((flat, R.eval_point(model, [g[i] for g, i in zip(grids, idx)])))
        exp_sorted = [e for _, e in sorted(exp_list, key=lambda t: t[0])]
        ctx.close('C01.grid.values_and_order', ep, exp_sorted, 1e-9, scale, rc, f)
        # first / last on the domain corners
        first = R.eval_point(model, [lo for lo, hi in doms])
        last = R.eval_point(model, [hi for lo, hi in doms])
        ctx.close('C01.grid.corners', [ep[0], ep[-1]], [first, last], 1e-12, scale, rc, f)
        # bit-exact end points where the arithmetic of the end spans is exact (dyadic knots); elsewhere the 1e-12 check above
        dyadic = all(F(k).denominator <= 2 ** 20 for U in model['kvs'] for k in U)
        if clamped and not desc['rational'] and feats['domain_length_1'] is not None and dyadic:
            ctx.check('C01.grid.corners_exact', list(ep[0]) == list(pts[0]) and list(ep[-1]) == list(pts[-1]), rc, f,
                      [pts[0], pts[-1]], [ep[0], ep[-1]])
    # the documented segment options evaluate(start=, stop=) / (start_u=, stop_u=, ...): a different sub-range per direction,
    # the grid of the current sample sizes spans exactly that sub-range
    ns = steps[-1][1]
    fr = [(F(1, 4), F(3, 4)), (F(1, 8), F(5, 8)), (F(3, 8), F(7, 8))]
    sub = [(float(lo + (hi - lo) * a), float(lo + (hi - lo) * b)) for (lo, hi), (a, b) in zip(doms, fr)]
    # where 0.0 lies strictly inside a kept domain, 0.0 itself is the requested start (a limit that is falsy as a number)
    sub = [((0.0, s1) if lo < 0 < hi and s1 > 0 else (s0, s1)) for (s0, s1), (lo, hi) in zip(sub, doms)]
    # ... and the same sub-range requested from its far end back to its near end (start > stop): the documented result is the
    # grid of that range in the order requested, which the pinned tree delivers
    sub_asc = sub
    for orient in ('ascending', 'descending', 'mixed'):
        if orient == 'mixed' and pd == 1:
            continue
        sub = [((b, a) if (orient == 'descending' or (orient == 'mixed' and k == pd - 1)) else (a, b)) for k, (a, b) in enumerate(sub_asc)]
        rc = dict(case, sample_sizes=[list(ns)], params=[[0.0]] * pd, segment_orientation=orient)
        f = dict(feats, sample=list(ns), segment=True, orientation=orient)
        try:
            if pd == 1:
                obj.evaluate(start=sub[0][0], stop=sub[0][1])
            else:
                kw = {}
                for a, nm in enumerate('uvw'[:pd]):
                    kw['start_' + nm], kw['stop_' + nm] = sub[a]
                obj.evaluate(**kw)
            ep = obj.evalpts
        except Exception as e:
            ctx.check('C01.grid.segment', False, rc, f, 'evaluate(start, stop) on a sub-range', repr(e))
            continue
        total = 1
        for n in ns:
            total *= n
        if ctx.check('C01.grid.segment.size', len(ep) == total, rc, f, total, len(ep)):
            grids = [[F(a) + (F(b) - F(a)) * F(i, n - 1) for i in range(n)] for (a, b), n in zip(sub, ns)]
            exp = {}
            for idx in itertools.product(*[range(n) for n in ns]):
                flat = idx[0] if pd == 1 else (idx[1] + ns[1] * idx[0] if pd == 2 else idx[2] + ns[2] * (idx[1] + ns[1] * idx[0]))
                exp[flat] = R.eval_point(model, [g[i] for g, i in zip(grids, idx)])
            ctx.close('C01.grid.segment.values', ep, [exp[i] for i in range(total)], 1e-9, scale, rc, f)
    obj.evaluate()

"""C19 - == on spline shapes is an equivalence that tracks the definition (explorer E1)."""
import copy
import itertools

from .. import alphabet as A
from .. import shapes as S

PROPERTY = "C19"
EXPLORERS = ['E1']
RULE = ("E1: shapes of all six classes (BSpline/NURBS x Curve/Surface/Volume), knot vectors stored normalised and "
        "non-normalised (range 0..128 so that every delta keeps them sorted); pairs (a, b) with b = deepcopy(a) changed in "
        "exactly one component - every coordinate of every (homogeneous) control point, every weight (stored value and "
        "through the weights setter), every knot that can move and stay sorted, every degree (setter; rebuilt valid shape) - "
        "by delta in {1e-3, 0.5, 2, 20}; pairs changed in none (a itself, deepcopy, rebuilt twin); every ordered pair of a "
        "cross list (other kind, other rationality, other size/degree/dimension, unit-weight and prefix twins); each pair is "
        "judged for ==, reversed ==, != ; non-trivial = every pair")
ASSUMPTIONS = [
    "comparison tolerance finer than 1e-3 (any decimal-places tolerance is; the default 'precision' is 18 decimal places)",
    "both operands of a pair are built with the same precision, so they have the same tolerance",
    "the comparison tolerance of a shape built with precision=k (documented as a number of decimal places) is 10**-k: a change "
    "of 5 * 10**-k in one homogeneous coordinate (magnitude ~5000) must make the shapes unequal",
    "a degree changed through the setter alone leaves an inconsistent object; it still has to compare unequal",
]
DELTAS = [1e-3, 0.5, 2, 20]
KV_SCALE = 128.0


def bounds(tier):
    return dict(deltas=DELTAS, classes=6, knot_storage=['normalised', 'range 0..128'],
                curves='p 1..2 (thorough 1..4) x 3 (thorough 4) knot structures, coded (thorough also seeded) nets', surfaces='2 (thorough 5) degree/size combos',
                volumes='1 (thorough 3) size triples', cross_list='%d shapes, all ordered pairs' % len(_cross_descs()))


# ----------------------------------------------------------------------------------------

def _sd(ints, degrees, rational, dim=3, scaled=False, net='coded', **kw):
    kvs = [A.clamped_kv(p, i) for p, i in zip(degrees, ints)]
    if scaled:
        kvs = [A.affine_kv(kv, 0.0, KV_SCALE) for kv in kvs]
    return A.shape_desc(kvs, list(degrees), rational, dim, net, 'coded', normalize_kv=not scaled, **kw)


def _base_descs(tier):
    q = tier == 'quick'
    out = []
    for scaled in (False, True):
        for rat in (False, True):
            for p in (1, 2) if q else (1, 2, 3):
                for ints in ([], [(0.5, 1)], [(0.25, 1), (0.5, 1)]):
                    out.append(_sd([ints], [p], rat, 3, scaled))
            surf = [((1, 2), ([], [(0.5, 1)])), ((2, 1), ([(0.25, 1), (0.5, 1)], []))]
            if not q:
                surf += [((2, 2), ([(0.5, 2)], [])), ((1, 3), ([(0.5, 1)], []))]
            for degs, ints in surf:
                out.append(_sd(ints, degs, rat, 3, scaled))
            vols = [((1, 1, 2), ([], [(0.5, 1)], [(0.5, 1)]))]
            if not q:
                vols.append(((2, 1, 1), ([], [], [(0.25, 1), (0.5, 1)])))
            for degs, ints in vols:
                out.append(_sd(ints, degs, rat, 3, scaled))
    out.append(_sd([[(0.5, 1)]], [2], False, 2))
    out.append(_sd([[(0.5, 1)]], [2], True, 2))
    if not q:
        for scaled in (False, True):
            for rat in (False, True):
                out.append(_sd([[(0.5, 1)]], [4], rat, 3, scaled))
                for p in (2, 3):
                    out.append(_sd([[(0.25, 1), (0.5, p)]], [p], rat, 3, scaled))
                out.append(_sd([[(0.5, 1)]], [2], rat, 3, scaled, net='seeded'))
                out.append(_sd([[(0.5, 1)], [(0.25, 1)]], [2, 2], rat, 3, scaled, net='seeded'))
                out.append(_sd([[(0.5, 1)], [], []], [1, 2, 1], rat, 3, scaled))
    return out


def _cross_descs():
    """shapes that must be pairwise unequal (each differs from each other in kind, rationality, size, degree, knots,
    dimension or control points)"""
    L = []
    c = _sd([[(0.5, 1)]], [2], False)                        # 0 B-spline curve, 4 points
    L.append(c)
    L.append(_sd([[(0.5, 1)]], [2], True))                   # 1 rational, coded weights
    L.append(dict(c, rational=True, weights='ones'))         # 2 rational twin of 0 with unit weights
    pts = A.make_net([4], 3, 'coded')
    L.append(dict(_sd([[(0.5, 1)]], [2], False, 4), points=[p + [1.0] for p in pts]))   # 3 4-D B-spline = homogeneous net of 2
    L.append(_sd([[(0.25, 1)]], [2], False))                 # 4 other knot
    L.append(_sd([[]], [3], False))                          # 5 same 4 points, other degree (and knots)
    L.append(_sd([[(0.25, 1), (0.5, 1)]], [2], False))       # 6 other size
    L.append(dict(_sd([[(0.5, 1)]], [2], False, 2)))         # 7 2-D curve, same x,y
    s = _sd([[], [(0.5, 1)]], [1, 2], False)                 # 8 surface 2x4
    L.append(s)
    L.append(_sd([[], [(0.5, 1)]], [1, 2], True))            # 9
    L.append(dict(s, rational=True, weights='ones'))         # 10 unit-weight twin of 8
    L.append(_sd([[(0.5, 1)], []], [2, 1], False))           # 11 surface 4x2
    # 12: surface whose first direction and first flat points are exactly curve 0 ("prefix twin")
    sp = _sd([[(0.5, 1)], []], [2, 1], False)
    L.append(dict(sp, points=pts + [[9.0, 9.0, 9.0]] * 4))
    v = _sd([[], [(0.5, 1)], [(0.5, 1)]], [1, 1, 2], False)  # 13 volume 2x3x4
    L.append(v)
    L.append(_sd([[], [(0.5, 1)], [(0.5, 1)]], [1, 1, 2], True))    # 14
    L.append(dict(v, rational=True, weights='ones'))         # 15
    # 16: volume whose first two directions and first flat points are surface 8
    vp = _sd([[], [(0.5, 1)], []], [1, 2, 1], False)
    L.append(dict(vp, points=A.make_net([2, 4], 3, 'coded') + [[7.0, 7.0, 7.0]] * 8))
    return L


def gen_cases(tier, seed):
    cases = []
    for d in _base_descs(tier):
        cases.append(dict(kind='base', shape=d))
    # more than 256 control points in total / more than 9 per direction (size thresholds of an implementation)
    from .. import util_knots as K
    for d in K.huge_shapes(tier):
        cases.append(dict(kind='base', shape=d))
    # data variety (tuples / ints kept as given, kept knot ranges, unusual coordinates and weights) and pairs of such respects
    small = [d for d in K.variety_shapes(tier) if all(n <= 9 for n in d['sizes']) and d['pdim'] <= 2]
    for d in small[::(3 if tier == 'quick' else 1)]:
        cases.append(dict(kind='base', shape=d))
    cases.append(dict(kind='cross'))
    for d in _base_descs('quick'):
        if d.get('normalize_kv', True) and any(len(kv) > 2 * (p + 1) for kv, p in zip(d['kvs'], d['degrees'])):
            cases.append(dict(kind='shared_input', shape=d))
    # shapes built with an explicit precision (number of decimal places): a change of 5 * 10**-precision in a large
    # coordinate must be seen (a relative comparison would hide it)
    for d in _base_descs('quick')[:6 if tier == 'quick' else None]:
        for k in (3, 6, 9):
            cases.append(dict(kind='precision', shape=d, precision=k))
    return cases


def case_weight(c):
    if c['kind'] == 'cross':
        return 50
    n = 1
    for s in c['shape']['sizes']:
        n *= s
    return n * (4 if c['shape']['rational'] else 3)


# ----------------------------------------------------------------------------------------

def _judge(ctx, fam, a, b, expect_equal, rc, f):
    """one pair: ==, reversed ==, != ; returns the verdict of a == b"""
    ab = a == b
    ba = b == a
    nab = a != b
    nba = b != a
    ctx.check('C19.result_is_bool', all(isinstance(x, bool) for x in (ab, ba, nab, nba)), rc, f, 'bool', [repr(ab), repr(nab)])
    ctx.check('C19.symmetric', bool(ab) == bool(ba), rc, f, 'a == b agrees with b == a', [ab, ba])
    ctx.check('C19.ne_is_negation', bool(nab) == (not ab) and bool(nba) == (not ba), rc, f, 'a != b is not (a == b)', [ab, nab, ba, nba])
    if expect_equal:
        ctx.check('C19.equal.' + fam, bool(ab) and bool(ba), rc, f, 'equal', [ab, ba])
    else:
        ctx.check('C19.detects.' + fam, not ab and not ba, rc, f, 'unequal', [ab, ba])
    ctx.outcome((fam, bool(ab)))
    return ab


def _sizes(obj):
    return [] if obj.pdimension == 1 else list(obj.cpsize)


def _get_kvs(obj):
    return [list(obj.knotvector)] if obj.pdimension == 1 else [list(k) for k in obj.knotvector]


def _set_kv(obj, d, kv):
    if obj.pdimension == 1:
        obj.knotvector = kv
    else:
        setattr(obj, 'knotvector_' + 'uvw'[d], kv)


def _get_deg(obj):
    return [obj.degree] if obj.pdimension == 1 else list(obj.degree)


def _set_deg(obj, d, p):
    if obj.pdimension == 1:
        obj.degree = p
    else:
        setattr(obj, 'degree_' + 'uvw'[d], p)


def _precision(case, ctx):
    desc, k = case['shape'], case['precision']
    rat = desc['rational']
    a = S.build(desc, ctx.seed, precision=k)
    sizes = _sizes(a)
    P0 = [[c * 64.0 + 5200.0 for c in p] for p in (a.ctrlptsw if rat else a.ctrlpts)]
    a.set_ctrlpts([list(p) for p in P0], *sizes)
    f0 = dict(pdim=desc['pdim'], rational=rat, precision=k, component='ctrlpt_precision')
    ctx.state(dict(d=desc, k=k), nontrivial=True)
    _judge(ctx, 'deepcopy', a, copy.deepcopy(a), True, dict(case), dict(f0, delta=0))
    delta = 5.0 * 10 ** (-k)
    for i in range(len(P0)):
        for c in range(len(P0[0])):
            if 'only' in case and case['only'] != [i, c]:
                continue
            b = copy.deepcopy(a)
            P = [list(p) for p in P0]
            P[i][c] += delta
            if P[i][c] == P0[i][c]:
                continue
            b.set_ctrlpts(P, *sizes)
            _judge(ctx, 'ctrlpt_precision', a, b, False, dict(case, only=[i, c]), dict(f0, index=i, coord=c, delta=delta))


def _shared_input(case, ctx):
    """two shapes built from the SAME knot list objects (and the same control point lists): a knot of one of them is
    then changed in place through its own knotvector property; if that edit reaches the shape, the other shape must not
    move with it and the two must compare unequal"""
    desc = case['shape']
    pd = desc['pdim']
    from geomdl import BSpline, NURBS
    pts, w, pw = S.net_points(desc, ctx.seed)
    P = pw if desc['rational'] else pts
    kv_lists = [list(kv) for kv in desc['kvs']]
    mod = NURBS if desc['rational'] else BSpline
    f0 = dict(pdim=pd, rational=desc['rational'], component='knot_shared_input')
    ctx.state(dict(d=desc, k='shared'), nontrivial=True)

    def make():
        o = {1: mod.Curve, 2: mod.Surface, 3: mod.Volume}[pd]()
        if pd == 1:
            o.degree = desc['degrees'][0]
            o.set_ctrlpts(P)
            o.knotvector = kv_lists[0]
        else:
            for a, nm in enumerate('uvw'[:pd]):
                setattr(o, 'degree_' + nm, desc['degrees'][a])
            o.set_ctrlpts(P, *desc['sizes'])
            for a, nm in enumerate('uvw'[:pd]):
                setattr(o, 'knotvector_' + nm, kv_lists[a])
        return o
    for d in range(pd):
        p = desc['degrees'][d]
        kv0 = list(desc['kvs'][d])
        for i in range(p + 1, len(kv0) - p - 1):
            a, b = make(), make()
            _judge(ctx, 'rebuilt_twin', a, b, True, dict(case), dict(f0, delta=0))
            new = (kv0[i] + (kv0[i + 1] if kv0[i + 1] > kv0[i] else kv0[i - 1])) / 2.0
            if new == kv0[i]:
                continue
            try:
                lst = b.knotvector if pd == 1 else b.knotvector[d]
                lst[i] = new
            except Exception:
                continue
            if _get_kvs(b)[d][i] != new:
                continue
            fi = dict(f0, direction='uvw'[d], index=i)
            rci = dict(case, only=[d, i])
            ok = _get_kvs(a)[d] == kv0
            ctx.check('C19.shared_input_independent.knots', ok, rci, fi, kv0, _get_kvs(a)[d],
                      'editing a knot of one shape changed another shape built from the same input list')
            if ok:
                _judge(ctx, 'knot_shared_input', a, b, False, rci, fi)
            kv_lists[d] = list(kv0)


def run_case(case, ctx):
    if case['kind'] == 'cross':
        return _cross(case, ctx)
    if case['kind'] == 'shared_input':
        return _shared_input(case, ctx)
    if case['kind'] == 'precision':
        return _precision(case, ctx)
    desc = case['shape']
    a = S.build(desc, ctx.seed)
    rat = desc['rational']
    f0 = dict(pdim=desc['pdim'], rational=rat, normalized=desc.get('normalize_kv', True), degrees=desc['degrees'],
              sizes=desc['sizes'], dim=desc['dim'])
    ctx.state(dict(d=desc), nontrivial=True)
    only = case.get('only')          # replay: {'component':..., 'index':..., 'coord':..., 'delta':...}

    def sel(**kw):
        return only is None or all(only.get(k) == v for k, v in kw.items())

    # ---- changed in none
    if sel(component='none'):
        rc = dict(case, only=dict(component='none'))
        f = dict(f0, component='none', delta=0)
        _judge(ctx, 'reflexive', a, a, True, rc, f)
        _judge(ctx, 'deepcopy', a, copy.deepcopy(a), True, rc, f)
        _judge(ctx, 'shallow_copy', a, copy.copy(a), True, rc, f)
        _judge(ctx, 'rebuilt_twin', a, S.build(desc, ctx.seed), True, rc, f)
        # comparisons must not depend on cached views having been read
        b = copy.deepcopy(a)
        _ = (b.ctrlpts, b.weights, b.bbox)
        _judge(ctx, 'deepcopy', a, b, True, rc, f)

    snap = S.snapshot(a)
    P0 = [list(p) for p in (a.ctrlptsw if rat else a.ctrlpts)]
    sizes = _sizes(a)
    ncoord = len(P0[0])

    # ---- equality stays an equivalence among objects some of which went through REJECTED requests: a copy b of a that was asked
    # for something invalid (and refused), a, and a variant v of a with one control point moved.  Whatever b now is, == must be
    # symmetric and transitive on {a, v, b}: b == a and b == v together with a != v would make it no equivalence at all
    if sel(component='after_rejected'):
        v = copy.deepcopy(a)
        Pv = [list(p) for p in P0]
        Pv[len(Pv) // 2][0] += 1.0
        v.set_ctrlpts(Pv, *sizes)
        bads = ['ctrlpts_too_few', 'knotvector_wrong_length', 'ctrlpts_wrong_dimension'] + (['weights_wrong_length'] if rat else [])
        for bad in bads:
            b = copy.deepcopy(a)
            try:
                if bad == 'ctrlpts_too_few':
                    b.set_ctrlpts([list(p) for p in P0[:1]], *([1] * len(sizes)))
                elif bad == 'knotvector_wrong_length':
                    kv = _get_kvs(b)[0]
                    _set_kv(b, 0, list(kv) + [kv[-1]])
                elif bad == 'ctrlpts_wrong_dimension':
                    b.set_ctrlpts([[0.0] for _ in P0], *sizes)
                else:
                    b.weights = [1.0] * (len(P0) - 1)
            except Exception:
                pass
            rc = dict(case, only=dict(component='after_rejected'))
            f = dict(f0, component='after_rejected', rejected=bad)
            try:
                ba, ab, bv, vb, av = (b == a), (a == b), (b == v), (v == b), (a == v)
            except Exception as e:
                ctx.check('C19.equivalence.after_rejected.comparable', False, rc, f, 'a boolean', repr(e))
                continue
            ctx.check('C19.equivalence.after_rejected.symmetric', bool(ba) == bool(ab) and bool(bv) == bool(vb), rc, f,
                      'b == x agrees with x == b', [ba, ab, bv, vb])
            ctx.check('C19.equivalence.after_rejected.transitive', not (ba and bv and not av), rc, f,
                      'b == a and b == v imply a == v', dict(b_eq_a=ba, b_eq_v=bv, a_eq_v=av))

    # ---- every coordinate of every control point (rational: homogeneous coordinates; the last one is the weight)
    for i in range(len(P0)):
        for c in range(ncoord):
            comp = 'weight' if (rat and c == ncoord - 1) else 'ctrlpt'
            for delta in DELTAS:
                if not sel(component=comp, index=i, coord=c, delta=delta):
                    continue
                b = copy.deepcopy(a)
                P = [list(p) for p in P0]
                P[i][c] += delta
                b.set_ctrlpts(P, *sizes)
                _judge(ctx, comp, a, b, False, dict(case, only=dict(component=comp, index=i, coord=c, delta=delta)),
                       dict(f0, component=comp, index=i, coord=c, delta=delta))
    # ---- one coordinate of every control point, read - modify - write back through the ctrlpts view
    for i in range(len(P0)):
        delta = DELTAS[0]
        if not sel(component='ctrlpts_view_rmw', index=i, delta=delta):
            continue
        b = copy.deepcopy(a)
        p = b.ctrlpts
        p = p if isinstance(p, list) else [list(x) for x in p]
        p[i] = list(p[i])
        p[i][0] += delta
        b.ctrlpts = p
        _judge(ctx, 'ctrlpts_view_rmw', a, b, False, dict(case, only=dict(component='ctrlpts_view_rmw', index=i, delta=delta)),
               dict(f0, component='ctrlpts_view_rmw', index=i, delta=delta))
    # ---- every weight through the weights setter (Cartesian point kept)
    if rat:
        w0 = list(a.weights)
        for i in range(len(w0)):
            for delta in DELTAS:
                if not sel(component='weight_setter', index=i, delta=delta):
                    continue
                b = copy.deepcopy(a)
                w = list(w0)
                w[i] += delta
                b.weights = w
                _judge(ctx, 'weight_setter', a, b, False, dict(case, only=dict(component='weight_setter', index=i, delta=delta)),
                       dict(f0, component='weight_setter', index=i, delta=delta))
        # read - modify - write back through the same documented views: the list the getter returned is edited and assigned
        for i in range(len(w0)):
            delta = DELTAS[0]
            if not sel(component='weight_setter_rmw', index=i, delta=delta):
                continue
            b = copy.deepcopy(a)
            w = b.weights
            w = w if isinstance(w, list) else list(w)
            w[i] += delta
            b.weights = w
            _judge(ctx, 'weight_setter_rmw', a, b, False, dict(case, only=dict(component='weight_setter_rmw', index=i, delta=delta)),
                   dict(f0, component='weight_setter_rmw', index=i, delta=delta))
    # ---- every knot that can move by delta and stay sorted (stored values compared, so only moves the setter keeps)
    kvs0 = _get_kvs(a)
    for d, kv0 in enumerate(kvs0):
        for i in range(len(kv0)):
            interior = desc['degrees'][d] < i < len(kv0) - desc['degrees'][d] - 1
            if f0['normalized'] and not interior:
                continue            # moving an end knot of a normalised vector rescales all of them
            for delta in DELTAS:
                if not sel(component='knot', direction=d, index=i, delta=delta):
                    continue
                up_ok = i == len(kv0) - 1 or kv0[i] + delta <= kv0[i + 1]
                dn_ok = i == 0 or kv0[i] - delta >= kv0[i - 1]
                if f0['normalized']:
                    up_ok = up_ok and kv0[i] + delta < kv0[-1]
                    dn_ok = dn_ok and kv0[i] - delta > kv0[0]
                if not (up_ok or dn_ok):
                    continue
                kv = list(kv0)
                kv[i] = kv0[i] + delta if up_ok else kv0[i] - delta
                b = copy.deepcopy(a)
                _set_kv(b, d, kv)
                if _get_kvs(b)[d] == kv0:
                    continue        # the setter did not keep the change (cannot happen on this alphabet)
                _judge(ctx, 'knot', a, b, False, dict(case, only=dict(component='knot', direction=d, index=i, delta=delta)),
                       dict(f0, component='knot', direction='uvw'[d], index=i, delta=delta, interior=interior))
                # the same change made in place through the list the getter of a deep copy returns.  Only judged when the
                # edit really reaches the copy (a getter that hands out copies makes it a no-op, which is fine).
                if delta == DELTAS[0] or delta == DELTAS[2]:
                    c = copy.deepcopy(a)
                    try:
                        lst = c.knotvector if c.pdimension == 1 else c.knotvector[d]
                        lst[i] = kv[i]
                    except Exception:
                        continue
                    if _get_kvs(c)[d][i] != kv[i]:
                        continue
                    fi = dict(f0, component='knot_inplace', direction='uvw'[d], index=i, delta=delta, interior=interior)
                    rci = dict(case, only=dict(component='knot', direction=d, index=i, delta=delta))
                    ctx.check('C19.deepcopy_independent.knots', _get_kvs(a)[d] == kv0, rci, fi, kv0, _get_kvs(a)[d],
                              'editing a knot of the deep copy changed the source')
                    if _get_kvs(a)[d] == kv0:
                        _judge(ctx, 'knot_inplace', a, c, False, rci, fi)
                    else:
                        a = S.build(desc, ctx.seed)      # restore the source for the remaining pairs
    # ---- every degree: through the setter alone, and as a rebuilt valid shape
    degs0 = _get_deg(a)
    for d, p in enumerate(degs0):
        for dp in (1, 2, -1):
            if p + dp < 1 or not sel(component='degree', direction=d, delta=dp):
                continue
            b = copy.deepcopy(a)
            _set_deg(b, d, p + dp)
            _judge(ctx, 'degree', a, b, False, dict(case, only=dict(component='degree', direction=d, delta=dp)),
                   dict(f0, component='degree', direction='uvw'[d], delta=dp))
        n = desc['sizes'][d]
        if n >= p + 2 and sel(component='degree_rebuilt', direction=d):
            d2 = copy.deepcopy(desc)
            d2['degrees'][d] = p + 1
            lo, hi = desc['kvs'][d][0], desc['kvs'][d][-1]
            m = n - (p + 1) - 1
            d2['kvs'][d] = [lo] * (p + 2) + [lo + (hi - lo) * (j + 1) / (m + 1.0) for j in range(m)] + [hi] * (p + 2)
            b = S.build(d2, ctx.seed)
            _judge(ctx, 'degree_rebuilt', a, b, False, dict(case, only=dict(component='degree_rebuilt', direction=d)),
                   dict(f0, component='degree_rebuilt', direction='uvw'[d], delta=1))
    # the comparisons never change their operands
    ctx.check('C19.operands_unchanged', S.snapshot(a) == snap, case, f0, 'a unchanged by comparisons', None)


def _cross(case, ctx):
    descs = _cross_descs()
    objs = [S.build(d, ctx.seed) for d in descs]
    pairs = case.get('pairs') or [[i, j] for i, j in itertools.product(range(len(objs)), repeat=2) if i != j]
    for i, j in pairs:
        a, b = objs[i], objs[j]
        da, db = descs[i], descs[j]
        f = dict(component='cross', i=i, j=j, pdim=da['pdim'], pdim_other=db['pdim'], rational=da['rational'],
                 rational_other=db['rational'], same_kind=da['pdim'] == db['pdim'], same_rationality=da['rational'] == db['rational'],
                 dim=da['dim'], dim_other=db['dim'])
        ctx.state(dict(i=i, j=j), nontrivial=True)
        fam = ('cross.kind' if not f['same_kind'] else 'cross.rationality' if not f['same_rationality'] else 'cross.definition')
        _judge(ctx, fam, a, b, False, dict(case, pairs=[[i, j]]), f)

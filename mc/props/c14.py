"""C14 - export followed by import reproduces the geometry (explorer E1).

Every case is one exported object (a bare shape or a container of 1..4 shapes, surfaces possibly with
trims) and a list of formats.  For each format the REAL writer is run into a private temp directory,
the REAL reader reads it back and
  * the imported definition (degrees, sizes, knots, control points, weights, delta, trims) is compared
    with the exported one (exact model, Fractions; numeric tolerance = printed precision),
  * the imported object is evaluated through the library and compared with the exact model of the original,
  * the written file is parsed by an independent reader written from docs/file_formats*.rst and the
    format comments, and compared with the net that was fed to the shape (documented ordering).
"""
import itertools
import json
import os
import shutil
import tempfile
from fractions import Fraction as F

from .. import alphabet as A
from .. import refmodel as R
from .. import shapes as S

PROPERTY = "C14"
VIA_HISTORY_EVERY = 7      # every k-th shape case is also run on an object that reached its definition through edits
EXPLORERS = ['E1']
RULE = ("E1: shapes of parametric dimension 1..3 x rational/non-rational x degrees x K'(p) knot vectors (plus one "
        "non-dyadic vector) with pairwise different sizes per direction x integer-coded / non-dyadic ('frac') nets and "
        "weights x non-default delta; containers of 1..4 shapes; surfaces with spline (B-spline and rational), freeform "
        "and curve-container trims x sense absent/0/1 x every format that can carry the object: json file, dict layer "
        "(identity and compact-json callbacks), smesh (file, directory), vmesh (file, directory), txt 1-D (2 separators), "
        "txt 2-D (3 separator pairs), csv control points / evaluated points; non-trivial = interior knot or non-unit "
        "weight or a trim")
ASSUMPTIONS = [
    "cfg (libconf) and YAML (ruamel.yaml) are NOT exercised: the packages are not installed and cannot be fetched; "
    "both formats share every line except the (de)serialiser callback with the JSON path, which is covered",
    "jinja2 template processing of input files is not exercised (jinja2 not installed)",
    "'printed precision': json/txt/csv write repr(float) (exact), smesh/vmesh write 18 decimals; weighted<->unweighted "
    "conversions cost a few ulp; tolerance 1e-14 relative to max(1,|value|)",
    "documented ordering: docs/file_formats_txt.rst (v varies first; 2-D: one line per u, columns v; volumes: stacked "
    "w layers; rational shapes store (x*w, y*w, z*w, w)); docs/file_formats.rst (JSON keys, cartesian points + weights); "
    "exchange.import_smesh docstring and _exchange comments (mesh files: u-row order i.e. u varies fastest inside a "
    "w layer, coordinates (x, y, z, w) unweighted, lines: dimension, degrees, sizes, knot vectors, points)",
    "txt / csv carry control points only: the round trip is completed by feeding the imported points to a fresh shape "
    "with the original degrees and knot vectors (the usage shown in the docs)",
    "two_dimensional txt is exercised for surfaces only (documented as 'only works for Surface objects')",
    "directory import orders files by name; containers have <= 4 shapes so '.1'..'.4' sort in export order",
]
TOL = 1e-14
TOL_EVAL = 1e-9

TXT1_SEPS = [[","], [" "]]
TXT2_SEPS = [[",", ";"], [" ", ","], ["\t", "|"]]


def bounds(tier):
    return dict(
        quick=dict(curves="p<=3 over K'(p) level 1, dims 2,3", surfaces="5 degree pairs x K'(p)[:3]^2, sizes differ",
                   volumes="degrees {1,2}^3 subset, sizes pairwise different", containers='1..4 shapes per parametric dimension',
                   trims='5 trim kinds x sense {absent,0,1} + all kinds at once', formats='json, dict, smesh, vmesh, txt1, txt2, csv'),
        thorough=dict(curves="p<=4 over K'(p) level 2, dims 2,3,4", surfaces="degrees {1,2,3}^2 x K'(p) level 1 ^2, sizes differ",
                      volumes="degrees {1,2,3}^3 (sum<=6) x K'(p)[:4]^3, sizes pairwise different",
                      containers='1..4 shapes per parametric dimension, 3 rotations', trims='5 trim kinds x sense x 4 surfaces + combos',
                      formats='json, dict, smesh, vmesh, txt1, txt2, csv'))[tier]


# ----------------------------------------------------------------------------------------
# alphabets
# ----------------------------------------------------------------------------------------

THIRDS = {2: A.clamped_kv(2, [(1.0 / 3.0, 1), (2.0 / 3.0, 1)])}


def _desc(kvs, degrees, rational, dim, flavour):
    """'int': index-coded integer net, coded weights; 'frac': the same net /3 + 0.1 (non-dyadic), non-dyadic weights;
    'seed': seeded integer net / seeded weights"""
    sizes = [len(kv) - p - 1 for kv, p in zip(kvs, degrees)]
    if flavour == 'int':
        return A.shape_desc(kvs, degrees, rational, dim, 'coded', 'coded')
    if flavour == 'seed':
        return A.shape_desc(kvs, degrees, rational, dim, 'seeded', 'seeded')
    net = A.make_net(sizes, dim, 'coded')
    pts = [[c / 3.0 + 0.1 * ((n + t) % 3) for t, c in enumerate(p)] for n, p in enumerate(net)]
    d = A.shape_desc(kvs, degrees, rational, dim, 'frac', 'frac', points=pts)
    if rational:
        d['weight_values'] = [0.3 + 0.4 * ((2 * i + 3 * j + 5 * k) % 5) for i, j, k in A.indices(sizes)]
        d['weights'] = 'frac'
    return d


def _curve_descs(tier):
    q = tier == 'quick'
    out = []
    for p in range(1, 4 if q else 5):
        kvl = A.rep_kvs(p, 1 if q else 2)
        if p in THIRDS:
            kvl = kvl + [THIRDS[p]]
        for kv in kvl:
            out.append(_desc([kv], [p], False, 3, 'int'))
            out.append(_desc([kv], [p], True, 3, 'int'))
            out.append(_desc([kv], [p], False, 2, 'frac'))
            out.append(_desc([kv], [p], True, 2, 'frac'))
            if not q:
                out.append(_desc([kv], [p], True, 3, 'seed'))
                out.append(_desc([kv], [p], False, 4, 'frac'))
    return out


def _surface_descs(tier):
    q = tier == 'quick'
    pairs = [(1, 2), (2, 1), (2, 3), (3, 2), (1, 3)] if q else list(itertools.product((1, 2, 3), repeat=2))
    out = []
    for pu, pv in pairs:
        ru = A.rep_kvs(pu, 1)[:3 if q else None] + ([THIRDS[pu]] if pu in THIRDS else [])
        rv = A.rep_kvs(pv, 1)[:3 if q else None]
        for ku, kv in itertools.product(ru, rv):
            if len(ku) - pu == len(kv) - pv:
                continue        # equal sizes mask u/v mix-ups
            flip = (len(ku) + 2 * len(kv) + pu) % 2 == 0       # a stable function of the structure, same in both tiers
            out.append(_desc([ku, kv], [pu, pv], False, 3, 'int'))
            out.append(_desc([ku, kv], [pu, pv], True, 3, 'int'))
            out.append(_desc([ku, kv], [pu, pv], flip, 3, 'frac'))
            out.append(_desc([ku, kv], [pu, pv], not flip, 3, 'seed'))
            if not q:
                out.append(_desc([ku, kv], [pu, pv], not flip, 3, 'frac'))
    return out


def _volume_descs(tier):
    q = tier == 'quick'
    degs = [1, 2] if q else [1, 2, 3]
    out = []
    for pu, pv, pw in itertools.product(degs, repeat=3):
        if not q and pu + pv + pw > 6:
            continue
        reps = lambda p, first: A.rep_kvs(p, 1)[:4] + ([THIRDS[p]] if (p in THIRDS and first) else [])
        n_here = 0
        for ku, kv, kw in itertools.product(reps(pu, True), reps(pv, False), reps(pw, False)):
            sz = (len(ku) - pu - 1, len(kv) - pv - 1, len(kw) - pw - 1)
            if len(set(sz)) < 3:
                continue
            n_here += 1
            if q and n_here > 6:
                break
            out.append(_desc([ku, kv, kw], [pu, pv, pw], False, 3, 'int'))
            out.append(_desc([ku, kv, kw], [pu, pv, pw], True, 3, 'int' if n_here % 2 else 'frac'))
            if not q:
                out.append(_desc([ku, kv, kw], [pu, pv, pw], bool(n_here % 2), 3, 'frac'))
    return out


DELTAS = {1: [[0.125], [0.1]], 2: [[0.25, 0.125], [0.1, 0.3]], 3: [[0.5, 0.25, 0.125], [0.3, 0.2, 0.1]]}

SQ = [[0.25, 0.25], [0.75, 0.25], [0.75, 0.75], [0.25, 0.75], [0.25, 0.25]]
TRI = [[0.125, 0.125], [0.875, 0.25], [0.5, 0.875], [0.125, 0.125]]


def _trim_kinds():
    lin = dict(type='spline', rational=False, degree=1, kv=[0.0, 0.0, 0.25, 0.5, 0.75, 1.0, 1.0], pts=SQ, delta=0.05)
    quad = dict(type='spline', rational=True, degree=2, kv=[0.0, 0.0, 0.0, 0.5, 0.5, 1.0, 1.0, 1.0],
                pts=[[0.5, 0.2], [0.9, 0.2], [0.7, 0.5], [0.5, 0.8], [0.5, 0.2]], w=[1.0, 0.5, 2.0, 0.7, 1.0], delta=0.125)
    ff = dict(type='freeform', pts=TRI)
    seg1 = dict(type='spline', rational=False, degree=1, kv=[0.0, 0.0, 0.5, 1.0, 1.0], pts=[[0.2, 0.2], [0.8, 0.2], [0.8, 0.6]], delta=0.1)
    # (a CurveContainer only accepts spline curves: Freeform has no parametric dimension and cannot be added)
    seg2 = dict(type='spline', rational=False, degree=2, kv=[0.0, 0.0, 0.0, 0.25, 1.0, 1.0, 1.0],
                pts=[[0.8, 0.6], [0.6, 0.9], [0.3, 0.7], [0.2, 0.2]], delta=0.25)
    seg3 = dict(type='spline', rational=True, degree=2, kv=[0.0, 0.0, 0.0, 1.0, 1.0, 1.0], pts=[[0.8, 0.6], [0.4, 0.9], [0.2, 0.2]],
                w=[1.0, 3.0, 1.0], delta=0.2)
    cont_a = dict(type='container', items=[seg1, seg2])
    cont_b = dict(type='container', items=[seg1, seg3])
    return [('spline', lin), ('rspline', quad), ('freeform', ff), ('container_bb', cont_a), ('container_br', cont_b)]


def _with_sense(spec, sense, inner=None):
    s = dict(spec)
    s['sense'] = sense
    if s['type'] == 'container':
        s['items'] = [dict(it, sense=inner) for it in s['items']]
    return s


FMT_BY_PDIM = {
    1: [['json'], ['dict']] + [['txt1'] + s for s in TXT1_SEPS] + [['csv', 'ctrlpts'], ['csv', 'evalpts']],
    2: [['json'], ['dict'], ['smesh']] + [['txt1'] + s for s in TXT1_SEPS] + [['txt2'] + s for s in TXT2_SEPS]
       + [['csv', 'ctrlpts'], ['csv', 'evalpts']],
    3: [['json'], ['dict'], ['vmesh']] + [['txt1'] + s for s in TXT1_SEPS],
}
CONT_FMT_BY_PDIM = {1: [['json'], ['dict']], 2: [['json'], ['dict'], ['smesh']], 3: [['json'], ['dict'], ['vmesh']]}


def _stable(d):
    """small integer that depends on the structure of the shape only (so quick cases reappear unchanged in thorough)"""
    return sum(d['sizes']) + 3 * sum(d['degrees']) + (1 if d['rational'] else 0) + len(d['net'])


def gen_cases(tier, seed):
    q = tier == 'quick'
    cases = []
    alph_q = {1: _curve_descs('quick'), 2: _surface_descs('quick'), 3: _volume_descs('quick')}
    alph = alph_q if q else {1: _curve_descs(tier), 2: _surface_descs(tier), 3: _volume_descs(tier)}
    # ---- bare shapes, every format
    for pd in (1, 2, 3):
        for d in alph[pd]:
            n = _stable(d)
            item = dict(shape=d, delta=DELTAS[pd][n % 2])
            if n % 5 == 3 and pd < 3:
                item['sense'] = n % 2     # 'reversed' option of the shape itself
            fmts = [f for f in FMT_BY_PDIM[pd] if not (f[0] in ('smesh', 'vmesh') and d['dim'] != 3)]
            cases.append(dict(kind='shape', items=[item], container=False, fmts=fmts))
    # ---- beyond the small sizes: degree up to 6, 7..12 control points per direction (every (degree, size) pair with a
    # two-digit size and 10 <= size), more than 256 control points
    from .. import util_knots as K
    big = K.tall_curve_shapes(tier)[::3] + K.tall_surface_shapes(tier) + K.huge_shapes(tier)
    for p, n in ((2, 10), (3, 12), (3, 20), (5, 11)):
        for rat in (False, True):
            big.append(A.shape_desc([A.uniform_kv(p, n), A.clamped_kv(1, [(0.5, 1)])], [p, 1], rat, 3, 'coded', 'coded', tall=True))
            big.append(A.shape_desc([A.clamped_kv(2, []), A.uniform_kv(p, n)], [2, p], rat, 3, 'coded', 'coded', tall=True))
        big.append(A.shape_desc([A.clamped_kv(1, []), A.uniform_kv(p, n), A.clamped_kv(2, [])], [1, p, 2], p % 2 == 0, 3, 'coded', 'coded', tall=True))
        big.append(A.shape_desc([A.uniform_kv(p, n), A.clamped_kv(1, [(0.5, 1)]), A.clamped_kv(1, [])], [p, 1, 1], p % 2 == 1, 3, 'coded', 'coded', tall=True))
        big.append(A.shape_desc([A.clamped_kv(1, []), A.clamped_kv(1, [(0.5, 1)]), A.uniform_kv(p, n)], [1, 1, p], False, 3, 'coded', 'coded', tall=True))
    for d in big:
        pd = d['pdim']
        cases.append(dict(kind='shape', items=[dict(shape=d, delta=DELTAS[pd][0])], container=False, fmts=FMT_BY_PDIM[pd]))
    cases.append(dict(kind='session', name='sizes'))
    # ---- containers of 1..4 shapes (rotation 0 is drawn from the quick alphabet in both tiers)
    for pd in (1, 2, 3):
        for rot in range(1 if q else 3):
            pool = [d for d in (alph_q if rot == 0 else alph)[pd] if d['dim'] == 3]
            step = max(1, len(pool) // 7)
            for n in range(1, 5):
                # shapes of different structure side by side, rational and not
                picks = [pool[(rot * 3 + k * step + (k % 2)) % len(pool)] for k in range(n)]
                items = [dict(shape=d, delta=DELTAS[pd][(k + rot) % 2]) for k, d in enumerate(picks)]
                cases.append(dict(kind='container', items=items, container=True, fmts=CONT_FMT_BY_PDIM[pd]))
    # ---- trimmed surfaces (only the dict formats carry trims)
    surf_q = [d for d in alph_q[2] if d['dim'] == 3]
    hosts = [surf_q[1], surf_q[len(surf_q) // 2]]
    if not q:
        surf = [d for d in alph[2] if d['dim'] == 3]
        hosts += [surf[2], surf[len(surf) // 3], surf[-1]]
    kinds = _trim_kinds()
    for h, host in enumerate(hosts):
        for name, spec in kinds:
            for sense in (None, 0, 1):
                for inner in ((None,) if spec['type'] != 'container' else (None, 1)):
                    items = [dict(shape=host, delta=DELTAS[2][h % 2], trims=[_with_sense(spec, sense, inner)])]
                    cases.append(dict(kind='trim', items=items, container=False, fmts=[['json'], ['dict']], trim_kind=name))
        # all kinds at once, mixed senses; also inside a container next to an untrimmed surface
        allk = [_with_sense(spec, [1, None, 0][i % 3], None) for i, (name, spec) in enumerate(kinds)]
        cases.append(dict(kind='trim', items=[dict(shape=host, delta=DELTAS[2][0], trims=allk)], container=False,
                          fmts=[['json'], ['dict']], trim_kind='all'))
        # the trims come back in the order they were given: containers first, and containers between single curves
        cases.append(dict(kind='trim', items=[dict(shape=host, delta=DELTAS[2][0], trims=allk[::-1])], container=False,
                          fmts=[['json'], ['dict']], trim_kind='all_reversed'))
        cases.append(dict(kind='trim', items=[dict(shape=host, delta=DELTAS[2][0], trims=[allk[3], allk[0], allk[4], allk[2]])],
                          container=False, fmts=[['json'], ['dict']], trim_kind='all_interleaved'))
        cases.append(dict(kind='trim', items=[dict(shape=host, delta=DELTAS[2][1], trims=allk[:2], sense=1),
                                              dict(shape=hosts[0], delta=DELTAS[2][0]),
                                              dict(shape=host, delta=DELTAS[2][0], trims=allk[2:])], container=True,
                          fmts=[['json'], ['dict']], trim_kind='all'))
    return cases


def case_weight(c):
    if c.get('kind') == 'session':
        return 5000
    w = 0
    for it in c['items']:
        n = 1
        for s in it['shape']['sizes']:
            n *= s
        w += n * (2 if it['shape']['rational'] else 1) + 20 * len(it.get('trims', ()))
    return w * len(c['fmts'])


# ----------------------------------------------------------------------------------------
# building / reading objects through the public API
# ----------------------------------------------------------------------------------------

def _build_trim(spec):
    from geomdl import BSpline, NURBS, freeform, multi
    t = spec['type']
    if t == 'spline':
        if spec['rational']:
            c = NURBS.Curve()
            c.degree = spec['degree']
            c.ctrlpts = [list(p) for p in spec['pts']]
            c.weights = list(spec['w'])
        else:
            c = BSpline.Curve()
            c.degree = spec['degree']
            c.ctrlpts = [list(p) for p in spec['pts']]
        c.knotvector = list(spec['kv'])
        c.delta = spec['delta']
    elif t == 'freeform':
        c = freeform.Freeform()
        c.evaluate(points=[list(p) for p in spec['pts']])
    else:
        c = multi.CurveContainer()
        for it in spec['items']:
            c.add(_build_trim(it))
    if spec.get('sense') is not None:
        c.opt = ['reversed', spec['sense']]
    return c


def _trim_image(t):
    """observable definition of a trim curve (nested, JSON-like), structure and numbers separated"""
    ty = t.type
    sense = t.opt_get('reversed')
    if ty == 'spline':
        w = list(t.weights) if t.rational else [1.0] * len(t.ctrlpts)
        return dict(struct=['spline', sense, t.degree, len(t.ctrlpts), len(t.knotvector), t.dimension],
                    nums=[list(t.knotvector), [list(p) for p in t.ctrlpts], list(w), [t.delta]])
    if ty == 'freeform':
        return dict(struct=['freeform', sense, len(t.evalpts), t.dimension], nums=[[list(p) for p in t.evalpts]])
    if ty == 'container':
        subs = [_trim_image(e) for e in t]
        return dict(struct=['container', sense, [s['struct'] for s in subs]], nums=[s['nums'] for s in subs])
    return dict(struct=[ty, sense], nums=[])


def _build_items(case, seed):
    objs = []
    for it in case['items']:
        o = S.build(it['shape'], seed)
        dl = it['delta']
        o.delta = dl[0] if it['shape']['pdim'] == 1 else tuple(dl)
        if it.get('sense') is not None:
            o.opt = ['reversed', it['sense']]
        if it.get('trims'):
            o.trims = [_build_trim(s) for s in it['trims']]
        objs.append(o)
    return objs


def _export_target(case, objs):
    from geomdl import multi
    if not case['container']:
        return objs[0]
    pd = case['items'][0]['shape']['pdim']
    cont = {1: multi.CurveContainer, 2: multi.SurfaceContainer, 3: multi.VolumeContainer}[pd]()
    for o in objs:
        cont.add(o)
    return cont


def _canon(d):
    """degrees, knots, sizes, cartesian points, weights of a definition dict - exact"""
    if d['rational']:
        pts = [[c / p[-1] for c in p[:-1]] for p in d['P']]
        w = [p[-1] for p in d['P']]
    else:
        pts = [list(p) for p in d['P']]
        w = [F(1)] * len(pts)
    return dict(degrees=list(d['degrees']), kvs=[list(k) for k in d['kvs']], sizes=list(d['sizes']), pts=pts, w=w)


def _delta_list(o):
    d = o.delta
    return [d] if isinstance(d, (int, float)) else list(d)


def _eval_params(model):
    sets = []
    for p, U in zip(model['degrees'], model['kvs']):
        lo, hi = R.domain(p, U)
        sets.append([lo, lo + (hi - lo) * F(3, 8), hi])
    return list(itertools.product(*sets))


class _Orig(object):
    """the exported item: exact definition, canonical image, expected evaluation"""
    def __init__(self, item, obj, seed):
        self.item = item
        self.desc = item['shape']
        self.obj = obj
        self.model = R.def_from_obj(obj)
        self.canon = _canon(self.model)
        self.params = _eval_params(self.model)
        self.values = [R.eval_point(self.model, prm) for prm in self.params]
        pts, w, pw = S.net_points(self.desc, seed)
        self.net = pw if self.desc['rational'] else pts      # what the docs call P / Pw, library flat order
        self.pts, self.w = pts, w
        self.scale = max(1.0, max(abs(c) for p in self.net for c in p))
        self.delta = _delta_list(obj)
        self.trims = [_trim_image(t) for t in obj.trims] if self.desc['pdim'] == 2 else []
        self.sense = obj.opt_get('reversed')


def _feats(case, orig, fmt, **kw):
    d = orig.desc
    trims = orig.item.get('trims') or []
    f = dict(format=fmt[0], fmt_args=list(fmt[1:]), pdim=d['pdim'], rational=d['rational'], sizes=list(d['sizes']),
             degrees=list(d['degrees']), dim=d['dim'], net=d['net'], container=case['container'], n_items=len(case['items']),
             n_trims=len(trims), trim_kind=case.get('trim_kind'), trim_types=sorted(set(t['type'] for t in trims)),
             senses=[t.get('sense') for t in trims])
    f.update(kw)
    return f


# ----------------------------------------------------------------------------------------
# oracles
# ----------------------------------------------------------------------------------------

def _same_definition(ctx, name, got, orig, rc, feats):
    """got: canonical image of an imported / independently parsed definition"""
    exp = orig.canon
    ok = ctx.check('C14.%s.degrees' % name, list(got['degrees']) == list(exp['degrees']), rc, feats, exp['degrees'], got['degrees'])
    ok &= ctx.check('C14.%s.sizes' % name, list(got['sizes']) == list(exp['sizes']), rc, feats, exp['sizes'], got['sizes'])
    ok &= ctx.close('C14.%s.knotvectors' % name, got['kvs'], exp['kvs'], TOL, 1.0, rc, feats)
    ok &= ctx.close('C14.%s.ctrlpts' % name, got['pts'], exp['pts'], TOL, orig.scale, rc, feats)
    ok &= ctx.close('C14.%s.weights' % name, got['w'], exp['w'], TOL, 1.0, rc, feats)
    return ok


def _same_evaluation(ctx, name, obj, orig, rc, feats):
    pd = orig.desc['pdim']
    got = []
    for prm in orig.params:
        got.append(obj.evaluate_single(float(prm[0]) if pd == 1 else [float(x) for x in prm]))
    ctx.close('C14.%s.evaluates_equal' % name, got, orig.values, TOL_EVAL, orig.scale, rc, feats)
    for v in orig.values[:3]:
        ctx.outcome(tuple(round(float(x), 6) for x in v))


def _imported_shape(ctx, name, imp, orig, rc, feats, delta=False, trims=False):
    """imp: a geomdl spline object returned by an importer"""
    pd = orig.desc['pdim']
    if not ctx.check('C14.%s.pdimension' % name, getattr(imp, 'pdimension', None) == pd, rc, feats, pd,
                     getattr(imp, 'pdimension', None)):
        return
    try:
        got = _canon(R.def_from_obj(imp))
    except Exception as e:     # inconsistent object (sizes vs. number of points ...)
        ctx.check('C14.%s.readable' % name, False, rc, feats, 'consistent definition', repr(e))
        return
    n_exp = 1
    for s in got['sizes']:
        n_exp *= s
    if not ctx.check('C14.%s.point_count' % name, len(got['pts']) == n_exp == len(orig.canon['pts']), rc, feats,
                     len(orig.canon['pts']), dict(points=len(got['pts']), sizes=got['sizes'])):
        return
    if _same_definition(ctx, name, got, orig, rc, feats):
        _same_evaluation(ctx, name, imp, orig, rc, feats)
    if delta:
        ctx.close('C14.%s.delta' % name, _delta_list(imp), orig.delta, 1e-15, 1.0, rc, feats)
        ctx.check('C14.%s.sense' % name, imp.opt_get('reversed') == orig.sense, rc, feats, orig.sense, imp.opt_get('reversed'))
    if trims and pd == 2:
        got_t = [_trim_image(t) for t in imp.trims]
        ctx.check('C14.%s.trims.structure' % name, [t['struct'] for t in got_t] == [t['struct'] for t in orig.trims], rc, feats,
                  [t['struct'] for t in orig.trims], [t['struct'] for t in got_t], 'trim count / types / sense / sizes')
        if [t['struct'] for t in got_t] == [t['struct'] for t in orig.trims]:
            ctx.close('C14.%s.trims.values' % name, [t['nums'] for t in got_t], [t['nums'] for t in orig.trims], TOL, 1.0, rc, feats)


def _rebuild_from_points(orig, points):
    """txt / csv: the documented usage - feed the imported (weighted) points to a shape with the known degrees / knots"""
    from geomdl import BSpline, NURBS
    d = orig.desc
    mod = NURBS if d['rational'] else BSpline
    o = {1: mod.Curve, 2: mod.Surface, 3: mod.Volume}[d['pdim']]()
    if d['pdim'] == 1:
        o.degree = d['degrees'][0]
        o.set_ctrlpts(points)
        o.knotvector = list(orig.obj.knotvector)
    else:
        names = 'uvw'[:d['pdim']]
        for n, p in zip(names, d['degrees']):
            setattr(o, 'degree_' + n, p)
        o.set_ctrlpts(points, *d['sizes'])
        for n, kv in zip(names, orig.obj.knotvector):
            setattr(o, 'knotvector_' + n, list(kv))
    return o


def _idx_iter(sizes):
    """(i,j,k) tuples with their library flat index (v + sv*(u + su*w))"""
    pd = len(sizes)
    for idx in itertools.product(*[range(s) for s in sizes]):
        yield idx, R.flat_index(sizes, idx)


def _floats(tokens):
    return [float(t) for t in tokens]


# ----------------------------------------------------------------------------------------
# independent readers (written from the documentation, no geomdl code)
# ----------------------------------------------------------------------------------------

def _read_json_doc(data, pd):
    """docs/file_formats.rst 'Format Definition' -> list of dicts(canon..., delta, rational, trims)"""
    shape = data['shape']
    out = []
    for item in shape['data']:
        if pd == 1:
            degrees = [item['degree']]
            kvs = [item['knotvector']]
            sizes = [len(item['control_points']['points'])]
        else:
            names = 'uvw'[:pd]
            degrees = [item['degree_' + n] for n in names]
            kvs = [item['knotvector_' + n] for n in names]
            sizes = [item['size_' + n] for n in names]
        pts = item['control_points']['points']
        w = item['control_points'].get('weights', [1.0] * len(pts))
        dl = item.get('delta')
        out.append(dict(degrees=degrees, kvs=kvs, sizes=sizes, pts=pts, w=w,
                        delta=[dl] if isinstance(dl, (int, float)) else (list(dl) if dl is not None else None),
                        rational=item.get('rational'), dimension=item.get('dimension'),
                        reversed=item.get('reversed'), trims=item.get('trims')))
    return shape.get('type'), shape.get('count'), out


def _doc_trim_image(t):
    """image of a trim as documented in file_formats.rst, comparable with _trim_image"""
    ty = t['type']
    sense = t.get('reversed')
    if ty == 'spline':
        pts = t['control_points']['points']
        w = t['control_points'].get('weights', [1.0] * len(pts))
        return dict(struct=['spline', sense, t['degree'], len(pts), len(t['knotvector']), t.get('dimension', 2)],
                    nums=[list(t['knotvector']), [list(p) for p in pts], list(w), [t.get('delta')]])
    if ty == 'freeform':
        return dict(struct=['freeform', sense, len(t['points']), t.get('dimension', 2)], nums=[[list(p) for p in t['points']]])
    subs = [_doc_trim_image(e) for e in t['data']]
    return dict(struct=['container', sense, [s['struct'] for s in subs]], nums=[s['nums'] for s in subs])


def _read_mesh_doc(text, pd):
    """smesh / vmesh: dimension; degrees; sizes; one knot vector per line; su*sv(*sw) lines 'x y z w' (cartesian, weight),
    u varies fastest, then v, then w layers; a last line with the open/closed flag"""
    lines = [ln.split() for ln in text.split("\n")]
    dim = int(lines[0][0])
    degrees = [int(x) for x in lines[1]]
    sizes = [int(x) for x in lines[2]]
    kvs = [_floats(lines[3 + a]) for a in range(pd)]
    n = 1
    for s in sizes:
        n *= s
    body = lines[3 + pd:3 + pd + n]
    rest = [ln for ln in lines[3 + pd + n:] if ln]
    rows = [_floats(r) for r in body]
    pts = [None] * n
    w = [None] * n
    su, sv = sizes[0], sizes[1]
    for idx, flat in _idx_iter(sizes):
        pos = idx[0] + su * idx[1] + (su * sv * idx[2] if pd == 3 else 0)
        if pos < len(rows) and len(rows[pos]) == 4:
            pts[flat] = rows[pos][:3]
            w[flat] = rows[pos][3]
    return dict(dim=dim, degrees=degrees, sizes=sizes, kvs=kvs, pts=pts, w=w, n_rows=len(rows), trailer=rest,
                n_fields=[len(ln) for ln in lines[1:3]])


# ----------------------------------------------------------------------------------------
# formats
# ----------------------------------------------------------------------------------------

def _fmt_json(case, ctx, target, origs, fmt, tmp, rc):
    from geomdl import exchange
    pd = origs[0].desc['pdim']
    path = os.path.join(tmp, 'shape.json')
    ok = exchange.export_json(target, path)
    feats0 = _feats(case, origs[0], fmt)
    ctx.check('C14.json.export.returns_true', ok is True, rc, feats0, True, ok)
    with open(path) as fh:
        text = fh.read()
    # -- independent reader
    data = json.loads(text)
    _judge_doc_dict(case, ctx, data, origs, fmt, rc, 'json.file')
    # -- library reader
    imported = exchange.import_json(path)
    _judge_imported_list(case, ctx, imported, origs, fmt, rc, 'json.import')


def _judge_doc_dict(case, ctx, data, origs, fmt, rc, name):
    pd = origs[0].desc['pdim']
    feats0 = _feats(case, origs[0], fmt)
    typ, count, items = _read_json_doc(data, pd)
    want = {1: 'curve', 2: 'surface', 3: 'volume'}[pd]
    ctx.check('C14.%s.header' % name, typ == want and count in (None, len(origs)) and len(items) == len(origs), rc, feats0,
              [want, len(origs)], [typ, count, len(items)])
    for k, (it, orig) in enumerate(zip(items, origs)):
        f = _feats(case, orig, fmt, index=k)
        got = dict(degrees=it['degrees'], sizes=it['sizes'], kvs=it['kvs'], pts=it['pts'], w=it['w'])
        _same_definition(ctx, name, got, orig, rc, f)
        ctx.check('C14.%s.delta' % name, it['delta'] is not None and _close_list(it['delta'], orig.delta), rc, f, orig.delta, it['delta'])
        ctx.check('C14.%s.flags' % name, it['rational'] in (None, orig.desc['rational']) and it['dimension'] in (None, orig.desc['dim'])
                  and it['reversed'] == orig.sense, rc, f, [orig.desc['rational'], orig.desc['dim'], orig.sense],
                  [it['rational'], it['dimension'], it['reversed']])
        if pd == 2:
            tr = it['trims']
            docs = [_doc_trim_image(t) for t in tr['data']] if tr else []
            s_ok = [t['struct'] for t in docs] == [t['struct'] for t in orig.trims] and (not tr or tr.get('count') in (None, len(docs)))
            ctx.check('C14.%s.trims.structure' % name, s_ok, rc, f, [t['struct'] for t in orig.trims], [t['struct'] for t in docs])
            if s_ok and docs:
                ctx.close('C14.%s.trims.values' % name, [t['nums'] for t in docs], [t['nums'] for t in orig.trims], TOL, 1.0, rc, f)


def _close_list(a, b, tol=1e-15):
    return len(a) == len(b) and all(abs(float(x) - float(y)) <= tol for x, y in zip(a, b))


def _judge_imported_list(case, ctx, imported, origs, fmt, rc, name, delta=True, trims=True):
    feats0 = _feats(case, origs[0], fmt)
    n = len(imported) if isinstance(imported, (list, tuple)) else None
    if not ctx.check('C14.%s.count' % name, n == len(origs), rc, feats0, len(origs), n):
        return
    for k, (imp, orig) in enumerate(zip(imported, origs)):
        _imported_shape(ctx, name, imp, orig, rc, _feats(case, orig, fmt, index=k), delta=delta, trims=trims)


def _fmt_dict(case, ctx, target, origs, fmt, tmp, rc):
    from geomdl import _exchange as exch
    if not (hasattr(exch, 'export_dict_str') and hasattr(exch, 'import_dict_str')):
        ctx.extra['dict_layer_absent'] += 1
        return
    # identity callbacks: the dict layer itself
    data = exch.export_dict_str(obj=target, callback=lambda d: d)
    plain = json.loads(json.dumps(data))            # tuples -> lists, proves the dict is plain data
    _judge_doc_dict(case, ctx, plain, origs, fmt, rc, 'dict.data')
    imported = exch.import_dict_str(file_src=data, delta=-1.0, callback=lambda d: d, tmpl=False)
    _judge_imported_list(case, ctx, imported, origs, fmt, rc, 'dict.import')
    # a different serialiser than export_json uses (compact json)
    text = exch.export_dict_str(obj=target, callback=lambda d: json.dumps(d, separators=(',', ':')))
    imported = exch.import_dict_str(file_src=text, delta=-1.0, callback=json.loads, tmpl=False)
    _judge_imported_list(case, ctx, imported, origs, fmt, rc, 'dict.import_compact')


def _fmt_mesh(case, ctx, target, origs, fmt, tmp, rc):
    from geomdl import exchange
    kind = fmt[0]
    pd = 2 if kind == 'smesh' else 3
    exp_fn, imp_fn = (exchange.export_smesh, exchange.import_smesh) if pd == 2 else (exchange.export_vmesh, exchange.import_vmesh)
    # (the directory name repeats the extension text of the file name: numbering the parts must only touch the file name)
    sub = os.path.join(tmp, kind + '.txt_files')
    os.mkdir(sub)
    base = 'mesh.txt'
    exp_fn(target, os.path.join(sub, base))
    want_files = [base] if len(origs) == 1 else ['mesh.%d.txt' % (k + 1) for k in range(len(origs))]
    feats0 = _feats(case, origs[0], fmt)
    have = sorted(os.listdir(sub))
    if not ctx.check('C14.%s.files' % kind, have == sorted(want_files), rc, feats0, want_files, have):
        return
    # -- independent reader on every file
    for k, (fn, orig) in enumerate(zip(want_files, origs)):
        f = _feats(case, orig, fmt, index=k)
        with open(os.path.join(sub, fn)) as fh:
            doc = _read_mesh_doc(fh.read(), pd)
        n = len(orig.canon['pts'])
        ctx.check('C14.%s.file.layout' % kind, doc['dim'] == 3 and doc['n_rows'] == n and doc['n_fields'] == [pd, pd]
                  and all(p is not None for p in doc['pts']) and doc['trailer'] == [['1']], rc, f,
                  dict(dim=3, rows=n, fields=[pd, pd], trailer=[['1']]),
                  dict(dim=doc['dim'], rows=doc['n_rows'], fields=doc['n_fields'], trailer=doc['trailer']))
        if all(p is not None for p in doc['pts']):
            _same_definition(ctx, '%s.file' % kind, doc, orig, rc, f)
    # -- library reader: file form (single shape) and directory form
    if len(origs) == 1:
        imported = imp_fn(os.path.join(sub, base))
        _judge_imported_list(case, ctx, imported, origs, fmt, rc, '%s.import_file' % kind, delta=False, trims=False)
    else:
        for k, (fn, orig) in enumerate(zip(want_files, origs)):
            imported = imp_fn(os.path.join(sub, fn))
            _judge_imported_list(case, ctx, imported, [orig], fmt, rc, '%s.import_file' % kind, delta=False, trims=False)
    imported = imp_fn(sub)
    _judge_imported_list(case, ctx, imported, origs, fmt, rc, '%s.import_dir' % kind, delta=False, trims=False)


def _fmt_txt1(case, ctx, target, origs, fmt, tmp, rc):
    from geomdl import exchange
    orig = origs[0]
    sep = fmt[1]
    f = _feats(case, orig, fmt, sep=sep)
    path = os.path.join(tmp, 'cp1.txt')
    kw = {} if sep == ',' else dict(separator=sep)
    exchange.export_txt(target, path, **kw)
    with open(path) as fh:
        lines = [ln for ln in fh.read().split("\n") if ln.strip()]
    # independent reader: one point per line, v varies first (then u, then stacked w layers) == library flat order
    doc = [_floats(ln.split(sep)) for ln in lines]
    ctx.close('C14.txt1.file.order_and_values', doc, orig.net, TOL, orig.scale, rc, f)
    got = exchange.import_txt(path, **kw)
    if ctx.close('C14.txt1.import.points', got, orig.net, TOL, orig.scale, rc, f):
        _imported_shape(ctx, 'txt1.rebuild', _rebuild_from_points(orig, got), orig, rc, f)


def _fmt_txt2(case, ctx, target, origs, fmt, tmp, rc):
    from geomdl import exchange
    orig = origs[0]
    sep, col = fmt[1], fmt[2]
    su, sv = orig.desc['sizes']
    f = _feats(case, orig, fmt, sep=sep, col_sep=col)
    path = os.path.join(tmp, 'cp2.txt')
    kw = {} if (sep, col) == (',', ';') else dict(separator=sep, col_separator=col)
    exchange.export_txt(target, path, two_dimensional=True, **kw)
    with open(path) as fh:
        lines = [ln for ln in fh.read().split("\n") if ln.strip()]
    # independent reader: rows = u, columns = v
    grid = [[_floats(cell.split(sep)) for cell in ln.split(col)] for ln in lines]
    exp_grid = [[orig.net[j + sv * i] for j in range(sv)] for i in range(su)]
    ctx.close('C14.txt2.file.rows_u_columns_v', grid, exp_grid, TOL, orig.scale, rc, f)
    res = exchange.import_txt(path, two_dimensional=True, **kw)
    shape_ok = isinstance(res, tuple) and len(res) == 3
    if not ctx.check('C14.txt2.import.returns_triple', shape_ok, rc, f, '(ctrlpts, size_u, size_v)', repr(res)[:200]):
        return
    got, gu, gv = res
    ctx.check('C14.txt2.import.sizes', (gu, gv) == (su, sv), rc, f, [su, sv], [gu, gv])
    if ctx.close('C14.txt2.import.points', got, orig.net, TOL, orig.scale, rc, f) and (gu, gv) == (su, sv):
        _imported_shape(ctx, 'txt2.rebuild', _rebuild_from_points(orig, got), orig, rc, f)


def _fmt_csv(case, ctx, target, origs, fmt, tmp, rc):
    from geomdl import exchange
    orig = origs[0]
    what = fmt[1]
    d = orig.desc
    pd = d['pdim']
    f = _feats(case, orig, fmt, point_type=what)
    path = os.path.join(tmp, what + '.csv')
    if what == 'ctrlpts':
        expected = orig.net
        width = d['dim'] + (1 if d['rational'] else 0)
    else:
        ns = [5] if pd == 1 else [3, 4]
        if pd == 1:
            target.sample_size = ns[0]
        else:
            target.sample_size_u, target.sample_size_v = ns
        doms = [R.domain(p, U) for p, U in zip(orig.model['degrees'], orig.model['kvs'])]
        grids = [[lo + (hi - lo) * F(i, n - 1) for i in range(n)] for (lo, hi), n in zip(doms, ns)]
        expected = [R.eval_point(orig.model, prm) for prm in itertools.product(*grids)]     # v varies first
        width = d['dim']
    exchange.export_csv(target, path, point_type=what)
    with open(path) as fh:
        lines = [ln for ln in fh.read().split("\n") if ln.strip()]
    # independent reader: one heading line, then one point per line, comma separated
    head = [h.strip() for h in lines[0].split(',')]
    ctx.check('C14.csv.file.header', head == ['dim %d' % (i + 1) for i in range(width)], rc, f,
              ['dim %d' % (i + 1) for i in range(width)], head)
    try:
        doc = [_floats(ln.split(',')) for ln in lines[1:]]
    except ValueError:
        doc = None
    tol = TOL if what == 'ctrlpts' else TOL_EVAL
    ctx.close('C14.csv.file.%s' % what, doc, expected, tol, orig.scale, rc, f)
    got = exchange.import_csv(path)
    if ctx.close('C14.csv.import.%s' % what, got, expected, tol, orig.scale, rc, f) and what == 'ctrlpts':
        _imported_shape(ctx, 'csv.rebuild', _rebuild_from_points(orig, got), orig, rc, f)


FORMATS = dict(json=_fmt_json, dict=_fmt_dict, smesh=_fmt_mesh, vmesh=_fmt_mesh, txt1=_fmt_txt1, txt2=_fmt_txt2, csv=_fmt_csv)


# ----------------------------------------------------------------------------------------

def _session_cases(name, tier):
    """long session: mesh / json / 2-D text round trips of surfaces with 40 pairwise different net sizes (and volumes a x b x 2)"""
    out = []
    for a in range(2, 8):
        for b in range(2, 10):
            if a == b:
                continue
            d = A.shape_desc([A.uniform_kv(1, a), A.uniform_kv(1, b)], [1, 1], (a + b) % 2 == 0, 3, 'coded', 'coded')
            out.append(dict(kind='shape', items=[dict(shape=d, delta=DELTAS[2][0])], container=False,
                            fmts=[f for f in FMT_BY_PDIM[2] if f[0] in ('smesh', 'json', 'txt2')]))
            if (a + b) % 4 == 0:
                v = A.shape_desc([A.uniform_kv(1, a), A.uniform_kv(1, b), A.uniform_kv(1, 2)], [1, 1, 1], False, 3, 'coded')
                out.append(dict(kind='shape', items=[dict(shape=v, delta=DELTAS[3][0])], container=False,
                                fmts=[f for f in FMT_BY_PDIM[3] if f[0] in ('vmesh', 'json')]))
    return out


def run_case(case, ctx):
    if case.get('kind') == 'session':
        import sys
        from .. import core
        return core.run_session(sys.modules[__name__], ctx, case, _session_cases(case['name'], ctx.tier), 12)
    seed = ctx.seed
    tmp = tempfile.mkdtemp(prefix='c14-')
    try:
        first = True
        for fmt in case['fmts']:
            # a fresh object per format: exporters may touch the object (sample size, caches)
            objs = _build_items(case, seed)
            origs = [_Orig(it, o, seed) for it, o in zip(case['items'], objs)]
            if first:
                first = False
                for it, o in zip(case['items'], origs):
                    ctx.state(dict(s=it['shape'], t=it.get('trims'), d=it['delta']),
                              nontrivial=A.is_nontrivial(it['shape']) or bool(it.get('trims')))
            target = _export_target(case, objs)
            rc = dict(case, fmts=[fmt])
            sub = tempfile.mkdtemp(prefix='f-', dir=tmp)
            try:
                FORMATS[fmt[0]](case, ctx, target, origs, fmt, sub, rc)
                ctx.check('C14.%s.roundtrip.accepted' % fmt[0], True, rc, _feats(case, origs[0], fmt))
            except Exception as e:
                # the library rejected (or crashed on) a valid object or a file it wrote itself
                ctx.check('C14.%s.roundtrip.accepted' % fmt[0], False, rc, _feats(case, origs[0], fmt),
                          'export and import are carried out', '%s: %s' % (type(e).__name__, str(e)[:200]))
            # the exported objects still are what they were
            for k, (o, orig) in enumerate(zip(objs, origs)):
                ctx.check('C14.export.leaves_definition', _canon(R.def_from_obj(o)) == orig.canon, rc,
                          _feats(case, orig, fmt, index=k), 'unchanged', 'changed')
    finally:
        shutil.rmtree(tmp, ignore_errors=True)

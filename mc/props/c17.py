"""C17 - results do not depend on configuration choices (E1 + E3).

(a) span search x evaluator variant, (b) knot normalisation x affine ranges, (c) number of worker
processes - every chunk-to-worker schedule of the pool through a virtual pool at the seam,
(d) GEOMDL_CACHE_SIZE - fresh interpreters.
"""
import copy
import itertools
import json
import os
import subprocess
import sys
import time

from .. import alphabet as A
from .. import core
from .. import shapes as S
from .. import vpool

PROPERTY = "C17"
VIA_HISTORY_EVERY = 7      # every k-th shape case is also run on an object that reached its definition through edits
EXPLORERS = ['E1', 'E3']
RULE = ("a fixed query battery (points at all span parameters, sampled grid, derivatives of orders 0..p+2, insert / "
        "insert+remove / refine then evaluate, split, tessellation, voxel fill) is run on every shape of a reduced C01 "
        "alphabet under every configuration: {linear,binary} span search x {default,alternative} evaluator; normalize_kv "
        "on/off x 5 affine knot ranges; num_procs in {1,2,4,8} with EVERY partition of the pool's chunks over workers "
        "(set partitions, virtual pool at geomdl._utilities.Pool, each block in a freshly forked process); "
        "GEOMDL_CACHE_SIZE in {unset,1,16,1024} in fresh interpreters; non-trivial = configuration differs from default")
ASSUMPTIONS = [
    "worker processes share no memory and Pool.map reassembles by index (CPython multiprocessing), so the chunk-to-worker "
    "partition is the complete observable nondeterminism of a map call; OS timing is abstracted away soundly",
    "CPython's chunking rule (len/(4*procs), rounded up) is reproduced by the virtual pool; one free-running real Pool run "
    "per num_procs value checks the seam model's outcome against the real pool",
    "rational shapes have no alternative evaluator class in the library: only the span search varies for them",
    "tolerance 1e-9 relative between configurations",
]
TOL = 1e-9
NM = 'uvw'


def bounds(tier):
    return dict(quick=dict(a='curves p<=3 / surfaces degrees<=2, K\' level 1', b='5 affine ranges, curves+surfaces+1 volume',
                           c='tessellate 1..3 surfaces x procs {2,4}; voxelize 2x2x2 x procs {2,4}: <=2 deviations (4: all for <=4 chunks)',
                           d='4 cache sizes'),
                thorough=dict(a='curves p<=4 / surfaces degrees<=3', b='5 affine ranges, more shapes',
                              c='tessellate 1..4 surfaces x procs {2,4,8}; voxelize grids with 8, 12, 18, 45 voxels x procs {2,4,8}: all set partitions of the chunks when a map call has <= 8 chunks, otherwise every schedule with <= 2 deviations from the default',
                              d='4 cache sizes'))[tier]


# ----------------------------------------------------------------------------------------
# query battery
# ----------------------------------------------------------------------------------------

def _maps(aff):
    """per direction (a, s): normalised parameter t -> object parameter a + s*t"""
    return [lambda t, a=a, s=s: a + s * t for a, s in aff]


def battery(obj, base_kvs, degrees, aff=None, voxel=True, tess=True):
    """runs the queries on obj; parameters are given in the normalised domain and mapped through aff;
    derivative values are rescaled by s^k so that results are comparable between parametrisations"""
    from geomdl import operations
    pd = obj.pdimension
    aff = aff or [(0.0, 1.0)] * pd
    fm = _maps(aff)
    out = {}
    sets = [A.params_for(p, kv, per_span=(1 if pd == 3 else 2), extras=(pd == 1)) for p, kv in zip(degrees, base_kvs)]
    grid = list(itertools.product(*sets))

    def mp(prm):
        return [f(t) for f, t in zip(fm, prm)]

    def ev(o, prm, maps=None):
        q = [f(t) for f, t in zip(maps or fm, prm)]
        return o.evaluate_single(q[0] if pd == 1 else q)

    out['single'] = [ev(obj, prm) for prm in grid]
    out['list'] = obj.evaluate_list([mp(p)[0] for p in grid] if pd == 1 else [mp(p) for p in grid])
    # sampled grid
    o = copy.deepcopy(obj)
    if pd == 1:
        o.sample_size = 5
    elif pd == 2:
        o.sample_size_u, o.sample_size_v = 3, 4
    else:
        o.sample_size_u, o.sample_size_v, o.sample_size_w = 2, 3, 2
    out['evalpts'] = [list(p) for p in o.evalpts]
    # the documented segment evaluation, requested from the far end of the domain back to its start (a coarse grid that
    # walks backwards over several knot spans at once) and, for surfaces and volumes, backwards in the last direction only
    for nm_, back in (('evalpts_backwards', [True] * pd), ('evalpts_last_backwards', [False] * (pd - 1) + [True])):
        if pd == 1 and nm_ == 'evalpts_last_backwards':
            continue
        rng = [(fm[a](1.0), fm[a](0.0)) if back[a] else (fm[a](0.0), fm[a](1.0)) for a in range(pd)]
        if pd == 1:
            o.evaluate(start=rng[0][0], stop=rng[0][1])
        else:
            kw_ = {}
            for a in range(pd):
                kw_['start_' + NM[a]], kw_['stop_' + NM[a]] = rng[a]
            o.evaluate(**kw_)
        out[nm_] = [list(p) for p in o.evalpts]
    # derivatives
    if pd <= 2:
        ders = []
        for prm in grid[:: max(1, len(grid) // 12)]:
            for order in range(0, max(degrees) + 3):
                q = mp(prm)
                if pd == 1:
                    d = obj.derivatives(q[0], order)
                    ders.append([[c * (aff[0][1] ** k) for c in d[k]] for k in range(order + 1)])
                else:
                    d = obj.derivatives(q[0], q[1], order)
                    ders.append([[[c * (aff[0][1] ** k) * (aff[1][1] ** l) for c in d[k][l]]
                                  for l in range(order + 1 - k)] for k in range(order + 1)])
        out['derivatives'] = ders
    # knot insertion / removal / refinement, then evaluate
    for a in range(pd):
        t = 0.3
        o = copy.deepcopy(obj)
        prm = [None] * pd
        num = [0] * pd
        prm[a], num[a] = fm[a](t), 1
        operations.insert_knot(o, prm, num)
        kv = o.knotvector if pd == 1 else o.knotvector[a]
        out['insert_kv_%s' % NM[a]] = [(k - aff[a][0]) / aff[a][1] for k in kv]
        out['insert_pts_%s' % NM[a]] = [ev(o, p) for p in grid]
        operations.remove_knot(o, prm, num)
        out['insert_remove_pts_%s' % NM[a]] = [ev(o, p) for p in grid]
    o = copy.deepcopy(obj)
    operations.refine_knotvector(o, [1] * pd)
    out['refine_pts'] = [ev(o, p) for p in grid]
    out['refine_sizes'] = [o.ctrlpts_size] if pd == 1 else list(o.cpsize)
    # split
    if pd == 1:
        pieces = operations.split_curve(obj, fm[0](0.4))
        out['split'] = [_piece_pts(pc) for pc in pieces]
    elif pd == 2:
        out['split_u'] = [_piece_pts(pc) for pc in operations.split_surface_u(obj, fm[0](0.4))]
        out['split_v'] = [_piece_pts(pc) for pc in operations.split_surface_v(obj, fm[1](0.6))]
    # tessellation
    if pd == 2 and tess and obj.dimension == 3:
        o = copy.deepcopy(obj)
        o.sample_size_u, o.sample_size_v = 3, 4
        out['tess_vertices'] = [[v.id, list(v.data)] for v in o.vertices]
        out['tess_faces'] = [[f.id, list(f.vertex_ids)] for f in o.faces]
    # voxel fill
    if pd >= 2 and voxel and obj.dimension == 3:
        from geomdl import voxelize
        o = copy.deepcopy(obj)
        if pd == 2:
            o.sample_size_u, o.sample_size_v = 4, 3
        else:
            o.sample_size_u, o.sample_size_v, o.sample_size_w = 3, 2, 3
        g, f = voxelize.voxelize(o, grid_size=(3, 2, 2))
        out['voxel_grid'] = g
        out['voxel_filled'] = list(f)
    return out


def _piece_pts(pc):
    pd = pc.pdimension
    doms = S.domain_params(pc)
    ts = [0.0, 0.25, 0.5, 1.0]
    res = []
    for tt in itertools.product(ts, repeat=pd):
        q = [lo + (hi - lo) * t for (lo, hi), t in zip(doms, tt)]
        res.append(pc.evaluate_single(q[0] if pd == 1 else q))
    return res


def compare(ctx, obl_prefix, ref, got, rc, feats, scale):
    ok = True
    for key in ref:
        if key not in got:
            ok = ctx.check(obl_prefix + '.' + key, False, dict(rc, query=key), feats, 'query answered', 'missing') and ok
            continue
        ok = ctx.close(obl_prefix + '.' + key, got[key], ref[key], TOL, scale, dict(rc, query=key), feats) and ok
    return ok


# ----------------------------------------------------------------------------------------
# cases
# ----------------------------------------------------------------------------------------

EXTRA_AFFINE = [(-5.0, 4.0), (100.0, 100.0), (0.0, 1.0e-3), (0.0, 1.0e6), (-1.0e-3, 2.0e-3)]


def _shape_alphabet(tier):
    q = tier == 'quick'
    out = []
    for p in ([1, 2, 3] if q else [1, 2, 3, 4]):
        for kv in A.rep_kvs(p, 1 if q else 2):
            out.append(A.shape_desc([kv], [p], False, 3, 'coded'))
            out.append(A.shape_desc([kv], [p], True, 3, 'coded', 'coded'))
    degs = [1, 2] if q else [1, 2, 3]
    for pu, pv in itertools.product(degs, degs):
        for ku in A.rep_kvs(pu, 1)[:3]:
            for kv in A.rep_kvs(pv, 1)[:3]:
                if len(ku) - pu == len(kv) - pv:
                    continue
                out.append(A.shape_desc([ku, kv], [pu, pv], False, 3, 'coded'))
                if not q or pu + pv <= 3:
                    out.append(A.shape_desc([ku, kv], [pu, pv], True, 3, 'coded', 'coded'))
    out.append(A.shape_desc([A.rep_kvs(1, 1)[1], A.rep_kvs(2, 1)[0], A.rep_kvs(1, 1)[0]], [1, 2, 1], False, 3, 'coded'))
    out.append(A.shape_desc([A.rep_kvs(2, 1)[1], A.rep_kvs(1, 1)[0], A.rep_kvs(1, 1)[2]], [2, 1, 1], True, 3, 'coded', 'coded'))
    return out


def gen_cases(tier, seed):
    cases = []
    shapes = _shape_alphabet(tier)
    for d in shapes:
        cases.append(dict(mode='span_eval', shape=d))
    # data variety: knot ranges far from [0,1] and very short or long ranges, kept as given, under every span search / evaluator;
    # decimal and 1/7 knots; the same maps in the normalise-or-not comparison
    for d in shapes[2:40:5]:
        for a, s in EXTRA_AFFINE:
            for norm in (False, True):
                cases.append(dict(mode='span_eval', shape=d, affine=[[a, s]] * d['pdim'], normalize_kv=norm, variety='range'))
            cases.append(dict(mode='normalize', shape=d, affine=[[a, s]] + [list(EXTRA_AFFINE[(k + 1) % len(EXTRA_AFFINE)])
                                                                         for k in range(d['pdim'] - 1)], variety='range'))
    for p in (1, 2, 3):
        for fr in ([0.1, 0.35, 0.7][:p + 1], [1.0 / 7.0, 3.0 / 7.0] + ([3.0 / 7.0] if p >= 2 else [])):
            kv = [0.0] * (p + 1) + fr + [1.0] * (p + 1)
            for rat in (False, True):
                d = A.shape_desc([kv], [p], rat, 3, 'coded', 'coded')
                cases.append(dict(mode='span_eval', shape=d, variety='knots'))
                for a, s in EXTRA_AFFINE[:3]:
                    cases.append(dict(mode='span_eval', shape=d, affine=[[a, s]], normalize_kv=False, variety='knots'))
    for d in shapes:
        if d['pdim'] == 3 or len(d['kvs'][0]) > 2 * (d['degrees'][0] + 1) or tier == 'thorough':
            pass
        for ai, (a, s) in enumerate(A.AFFINE):
            cases.append(dict(mode='normalize', shape=d, affine=[[a, s]] + [list(A.AFFINE[(ai + 1 + k) % 5]) for k in range(d['pdim'] - 1)]))
    for p in (2, 3):
        kv = A.rep_kvs(p, 1)[3 if p == 2 else 4]
        for rat in (False, True):
            for a, s in A.AFFINE[1:4]:
                cases.append(dict(mode='shared_kv', shape=A.shape_desc([kv, kv], [p, p], rat, 3, 'coded', 'coded'), affine=[a, s]))
    # (c) schedules
    q = tier == 'quick'
    for nsurf in ([1, 2, 3] if q else [1, 2, 3, 4]):
        for procs in ([2, 4] if q else [2, 4, 8]):
            cases.append(dict(mode='sched_tessellate', nsurf=nsurf, procs=procs))
            if nsurf >= 2:
                cases.append(dict(mode='sched_tessellate', nsurf=nsurf, procs=procs, own_delta=True))
    # voxel counts 8, 18 (and 12, 45 in thorough): not all divisible by the worker counts
    for grid in ([[2, 2, 2], [3, 3, 2]] if q else [[2, 2, 2], [3, 2, 2], [3, 3, 2], [5, 3, 3]]):
        for procs in ([2, 4] if q else [2, 4, 8]):
            for kind in ('surface', 'volume', 'boxvol'):
                cases.append(dict(mode='sched_voxelize', grid=grid, procs=procs, kind=kind))
    # more than 64 / 256 voxels (grids beyond 4 per axis)
    for grid in ([[2, 3, 11], [5, 4, 4]] if q else [[2, 3, 11], [5, 4, 4], [5, 5, 5], [8, 8, 8], [7, 6, 7]]):
        for procs in ([2, 4] if q else [2, 4, 8]):
            for kind in ('surface', 'boxvol'):
                cases.append(dict(mode='sched_voxelize', grid=grid, procs=procs, kind=kind))
    # the documented keyword options of voxelize, whatever they do, must do the same in one process and in many
    for opts in (dict(padding=0.04), dict(use_cubes=True), dict(padding=0.3, use_cubes=True)):
        for procs in ([2, 4] if q else [2, 4, 8]):
            for kind in ('surface', 'boxvol'):
                cases.append(dict(mode='sched_voxelize', grid=[5, 4, 6] if kind == 'surface' else [3, 3, 2], procs=procs, kind=kind, opts=opts))
    for grid in ([[8, 8, 8], [3, 4, 5]] if q else [[8, 8, 8], [3, 4, 5], [5, 5, 5], [2, 2, 7]]):
        for procs in ([2, 4] if q else [2, 4, 8]):
            for kind in ('tinysurf', 'farsurf'):
                cases.append(dict(mode='sched_voxelize', grid=grid, procs=procs, kind=kind))
    return cases


def case_weight(c):
    if c['mode'].startswith('sched'):
        return 1e6 * c['procs']
    return sum(len(k) for k in c['shape']['kvs']) * c['shape']['pdim']


def run_case(case, ctx):
    m = case['mode']
    if m == 'span_eval':
        _span_eval(case, ctx)
    elif m == 'normalize':
        _normalize(case, ctx)
    elif m == 'shared_kv':
        _shared_kv(case, ctx)
    elif m == 'sched_tessellate':
        _sched_tessellate(case, ctx)
    elif m == 'sched_voxelize':
        _sched_voxelize(case, ctx)
    elif m == 'real_pool':
        _real_pool(case, ctx)


# ---------------------------------------------------------------------------------------- (a)

def _span_eval(case, ctx):
    from geomdl import helpers, evaluators
    desc = case['shape']
    pd = desc['pdim']
    aff = [tuple(x) for x in case['affine']] if case.get('affine') else None
    norm = case.get('normalize_kv', True)
    raw = desc if aff is None else dict(desc, kvs=[A.affine_kv(kv, a, s) for kv, (a, s) in zip(desc['kvs'], aff)], normalize_kv=norm)
    baff = None if (aff is None or norm) else aff
    ref_obj = S.build(raw, ctx.seed)
    scale = S.max_abs(S.snapshot(ref_obj))
    ref = battery(ref_obj, desc['kvs'], desc['degrees'], aff=baff)
    ctx.state(dict(d=desc, cfg='default', aff=aff, n=norm), nontrivial=False)
    alts = {1: evaluators.CurveEvaluator2, 2: evaluators.SurfaceEvaluator2}
    for span_name, span in (('linear', helpers.find_span_linear), ('binary', helpers.find_span_binsearch)):
        for ev_name in ('default', 'alternative'):
            if span_name == 'linear' and ev_name == 'default':
                continue
            if ev_name == 'alternative' and (desc['rational'] or pd == 3):
                continue
            if 'config' in case and case['config'] != [span_name, ev_name]:
                continue
            feats = dict(pdim=pd, rational=desc['rational'], span=span_name, evaluator=ev_name, degrees=desc['degrees'],
                         affine=[list(x) for x in aff] if aff else None, normalize_kv=norm)
            rc = dict(case, config=[span_name, ev_name])
            ctx.state(dict(d=desc, cfg=[span_name, ev_name], aff=aff, n=norm), nontrivial=True)
            try:
                obj = S.build(raw, ctx.seed, find_span_func=span)
                if ev_name == 'alternative':
                    obj.evaluator = alts[pd](find_span_func=span)
                got = battery(obj, desc['kvs'], desc['degrees'], aff=baff)
            except Exception as e:
                ctx.check('C17.span_evaluator.no_new_failure', False, rc, feats, 'call valid in the default configuration succeeds',
                          repr(e))
                continue
            ctx.check('C17.span_evaluator.no_new_failure', True, rc, feats)
            compare(ctx, 'C17.span_evaluator', ref, got, rc, feats, scale)


# ---------------------------------------------------------------------------------------- (b)

def _normalize(case, ctx):
    desc = case['shape']
    pd = desc['pdim']
    aff = [tuple(x) for x in case['affine']]
    ref_obj = S.build(desc, ctx.seed)
    scale = S.max_abs(S.snapshot(ref_obj))
    ref = battery(ref_obj, desc['kvs'], desc['degrees'])
    raw = dict(desc, kvs=[A.affine_kv(kv, a, s) for kv, (a, s) in zip(desc['kvs'], aff)])
    for norm in (True, False):
        if 'normalize_kv' in case and case['normalize_kv'] != norm:
            continue
        feats = dict(pdim=pd, rational=desc['rational'], normalize_kv=norm, affine=[list(x) for x in aff],
                     unit_range=all(s == 1.0 for a, s in aff), degrees=desc['degrees'])
        rc = dict(case, normalize_kv=norm)
        ctx.state(dict(d=desc, aff=aff, n=norm), nontrivial=True)
        try:
            obj = S.build(dict(raw, normalize_kv=norm), ctx.seed)
            got = battery(obj, desc['kvs'], desc['degrees'], aff=None if norm else aff)
        except Exception as e:
            ctx.check('C17.normalize.no_new_failure', False, rc, feats, 'call valid with normalised knots succeeds', repr(e))
            continue
        ctx.check('C17.normalize.no_new_failure', True, rc, feats)
        if not norm:
            # split pieces and voxel grids live in the same space; knot vectors of an insertion were mapped back
            pass
        compare(ctx, 'C17.normalize', ref, got, rc, feats, scale)


def _shared_kv(case, ctx):
    """normalize_kv=False stores the caller's list: one list object given for u and v (and to two shapes) must behave like
    separate equal lists - the library may not scribble on a knot vector it was handed"""
    from geomdl import BSpline, NURBS
    desc = case['shape']
    a, s = case['affine']
    ref_obj = S.build(desc, ctx.seed)
    scale = S.max_abs(S.snapshot(ref_obj))
    ref = battery(ref_obj, desc['kvs'], desc['degrees'])
    shared = A.affine_kv(desc['kvs'][0], a, s)
    keep = list(shared)
    pts, w, pw = S.net_points(desc, ctx.seed)
    cls = (NURBS if desc['rational'] else BSpline).Surface
    obj = cls(normalize_kv=False)
    obj.degree_u, obj.degree_v = desc['degrees']
    obj.set_ctrlpts([list(p) for p in (pw if desc['rational'] else pts)], *desc['sizes'])
    obj.knotvector_u = shared
    obj.knotvector_v = shared          # the same list object
    feats = dict(pdim=2, rational=desc['rational'], normalize_kv=False, affine=[a, s], shared_list=True, degrees=desc['degrees'])
    ctx.state(dict(d=desc, sh=[a, s]), nontrivial=True)
    try:
        got = battery(obj, desc['kvs'], desc['degrees'], aff=[(a, s), (a, s)])
    except Exception as e:
        ctx.check('C17.normalize.no_new_failure', False, case, feats, 'call valid with normalised knots succeeds', repr(e))
        return
    compare(ctx, 'C17.normalize', ref, got, case, feats, scale)
    ctx.check('C17.normalize.caller_knotvector_unchanged', shared == keep, case, feats, keep, shared)
    # removal of an existing interior knot in u as the FIRST knot operation (insertion would replace the stored list)
    from geomdl import operations
    interior = [k for k in desc['kvs'][0] if 0.0 < k < 1.0]
    if interior:
        t = interior[0]
        n_obj = S.build(desc, ctx.seed)
        operations.remove_knot(n_obj, [t, None], [1, 0])
        o = copy.deepcopy(obj)
        try:
            operations.remove_knot(o, [a + s * t, None], [1, 0])
            kv_v = [(k - a) / s for k in o.knotvector_v]
            ctx.close('C17.normalize.remove_first.other_direction_knots', kv_v, list(n_obj.knotvector_v), 1e-12, 1.0, case, feats)
            prms = [(0.0, 0.0), (0.3, 0.6), (0.5, 0.5), (1.0, 1.0), (0.75, 0.2)]
            got_pts = [o.evaluate_single([a + s * u, a + s * v]) for u, v in prms]
            exp_pts = [n_obj.evaluate_single([u, v]) for u, v in prms]
            ctx.close('C17.normalize.remove_first.points', got_pts, exp_pts, TOL, scale, case, feats)
        except Exception as e:
            ctx.check('C17.normalize.no_new_failure', False, case, feats, 'call valid with normalised knots succeeds', repr(e))
    ctx.check('C17.normalize.caller_knotvector_unchanged', shared == keep, case, feats, keep, shared)


# ---------------------------------------------------------------------------------------- (c)

def _surfaces(n, seed):
    descs = [A.shape_desc([[0, 0, 0, 0.5, 1, 1, 1], [0, 0, 1, 1]], [2, 1], False, 3, 'coded'),
             A.shape_desc([[0, 0, 1, 1], [0, 0, 0, 1, 1, 1]], [1, 2], True, 3, 'seeded', 'coded'),
             A.shape_desc([[0, 0, 1, 1], [0, 0, 0.5, 1, 1]], [1, 1], False, 3, 'seeded'),
             A.shape_desc([[0, 0, 0, 1, 1, 1], [0, 0, 0, 0.5, 1, 1, 1]], [2, 2], True, 3, 'coded', 'spike')]
    return [S.build(d, seed + i) for i, d in enumerate(descs[:n])]


def _tess_result(procs, nsurf, seed, own_delta=False):
    from geomdl import multi
    c = multi.SurfaceContainer()
    for k, s in enumerate(_surfaces(nsurf, seed)):
        if own_delta:
            s.sample_size_u, s.sample_size_v = 4 + k, 3 + (k % 2)      # every element keeps its own sampling density
        c.add(s)
    c.sample_size = 3
    kw = dict(delta=False) if own_delta else {}                          # documented option: do not push the container's delta
    if procs == 1:
        c.tessellate(**kw)
    else:
        c.tessellate(num_procs=procs, **kw)
    return dict(vertices=[[v.id, list(v.data), list(v.uv)] for v in c.vertices],
                faces=[[f.id, list(f.vertex_ids)] for f in c.faces],
                evalpts=[list(p) for p in c.evalpts])


def _voxel_result(procs, kind, grid, seed, opts=None):
    from geomdl import voxelize
    opts = dict(opts or {})
    if kind == 'boxvol':
        # axis-aligned trilinear box: every voxel of the grid, the last ones included, contains sampled points
        d = A.shape_desc([[0, 0, 1, 1], [0, 0, 1, 1], [0, 0, 1, 1]], [1, 1, 1], False, 3, 'coded')
        d['points'] = [[float(i), 2.0 * j, 3.0 * k] for k in range(2) for i in range(2) for j in range(2)]
        o = S.build(d, seed)
        o.sample_size_u, o.sample_size_v, o.sample_size_w = 4, 4, 4
    elif kind in ('surface', 'tinysurf', 'farsurf'):
        # (tinysurf / farsurf: the same surface in units of 1e-6 / moved by 1e6 - absolute paddings and tolerances of the
        # single-process and the multi-process path have to agree there as well)
        net = {'surface': 'coded', 'tinysurf': 'tiny', 'farsurf': 'large'}[kind]
        o = S.build(A.shape_desc([[0, 0, 0, 0.5, 1, 1, 1], [0, 0, 1, 1]], [2, 1], False, 3, net), seed)
        o.sample_size_u, o.sample_size_v = (4, 3) if kind == 'surface' else (9, 7)
    else:
        o = S.build(A.shape_desc([[0, 0, 1, 1], [0, 0, 0.5, 1, 1], [0, 0, 1, 1]], [1, 1, 1], True, 3, 'coded', 'coded'), seed)
        o.sample_size_u, o.sample_size_v, o.sample_size_w = 2, 3, 2
    if procs == 1:
        g, f = voxelize.voxelize(o, grid_size=tuple(grid), **opts)
    else:
        g, f = voxelize.voxelize(o, grid_size=tuple(grid), num_procs=procs, **opts)
    return dict(grid=g, filled=list(f))


def _explore(ctx, case, run, ref, obl, feats):
    maxdev = None
    if ctx.tier == 'quick':
        maxdev = 2
    if 'schedule' in case:
        sched = vpool.Schedule(lambda ci, nc, k: tuple(case['schedule'][ci]))
        with vpool.installed(sched):
            res = run()
        ok, _ = core._close(_flat(res), _flat(ref), TOL, 1.0)
        ctx.check(obl, ok and _struct(res) == _struct(ref), case, feats, 'same as num_procs=1', 'differs under schedule')
        return
    n = 0
    outcomes = set()
    try:
        for combo, res in vpool.explore(run, max_deviations=maxdev):
            n += 1
            ok, _ = core._close(_flat(res), _flat(ref), TOL, 1.0)
            same = ok and _struct(res) == _struct(ref)
            outcomes.add(core.jhash(res))
            ctx.check(obl, same, dict(case, schedule=[list(a) for a in combo]),
                      dict(feats, deviations=sum(vpool.deviations(a) for a in combo)),
                      'same as num_procs=1', _diff(ref, res))
    except Exception as e:
        ctx.check(obl.rsplit('.', 1)[0] + '.no_new_failure', False, case, feats, 'call valid with num_procs=1 succeeds', repr(e))
        return
    ctx.extra['schedules_explored'] += n
    for o in outcomes:
        ctx.outcome(o)
    ctx.state(dict(case=case, schedules=n), nontrivial=True)


def _flat(x):
    """numeric leaves only"""
    if isinstance(x, dict):
        return [_flat(x[k]) for k in sorted(x)]
    if isinstance(x, (list, tuple)):
        return [_flat(v) for v in x]
    if isinstance(x, bool):
        return 0.0
    if isinstance(x, (int, float)):
        return float(x)
    return 0.0


def _struct(x):
    """non-float structure (ids, vertex indices, fill bits)"""
    if isinstance(x, dict):
        return {k: _struct(v) for k, v in x.items()}
    if isinstance(x, (list, tuple)):
        return [_struct(v) for v in x]
    if isinstance(x, float):
        return 'f'
    return x


def _diff(ref, res):
    for k in ref:
        if core.jhash(ref[k]) != core.jhash(res.get(k)):
            return dict(first_differing_key=k, ref=json.dumps(ref[k])[:300], got=json.dumps(res.get(k))[:300])
    return None


def _sched_tessellate(case, ctx):
    nsurf, procs, own = case['nsurf'], case['procs'], bool(case.get('own_delta'))
    ref = _tess_result(1, nsurf, ctx.seed, own)
    feats = dict(query='tessellate', procs=procs, nsurf=nsurf, own_delta=own)
    _explore(ctx, case, lambda: _tess_result(procs, nsurf, ctx.seed, own), ref, 'C17.num_procs.tessellate.same_result', feats)


def _sched_voxelize(case, ctx):
    ref = _voxel_result(1, case['kind'], case['grid'], ctx.seed, case.get('opts'))
    feats = dict(query='voxelize', procs=case['procs'], grid=case['grid'], kind=case['kind'], opts=case.get('opts'))
    _explore(ctx, case, lambda: _voxel_result(case['procs'], case['kind'], case['grid'], ctx.seed, case.get('opts')), ref,
             'C17.num_procs.voxelize.same_result', feats)


def _real_pool(case, ctx):
    """free-running real multiprocessing.Pool: conformance of the seam model (single outcome expected)"""
    procs = case['procs']
    feats = dict(procs=procs, real_pool=True)
    try:
        r1 = _tess_result(procs, 3, ctx.seed)
        ref = _tess_result(1, 3, ctx.seed)
        ok, _ = core._close(_flat(r1), _flat(ref), TOL, 1.0)
        ctx.check('C17.num_procs.tessellate.real_pool', ok and _struct(r1) == _struct(ref), case, feats, 'same as num_procs=1',
                  _diff(ref, r1))
        v1 = _voxel_result(procs, 'surface', [2, 2, 2], ctx.seed)
        vref = _voxel_result(1, 'surface', [2, 2, 2], ctx.seed)
        ctx.check('C17.num_procs.voxelize.real_pool', _struct(v1) == _struct(vref) and core._close(_flat(v1), _flat(vref), TOL, 1.0)[0],
                  case, feats, 'same as num_procs=1', _diff(vref, v1))
    except Exception as e:
        ctx.check('C17.num_procs.real_pool.no_new_failure', False, case, feats, 'succeeds', repr(e))


# ---------------------------------------------------------------------------------------- (d)

CACHE_SCRIPT = r'''
import sys, json, io, contextlib
sys.path.insert(0, %(verif)r)
from mc import core
buf = io.StringIO()
with contextlib.redirect_stdout(buf):
    core.bind_repo()
    from mc.props import c17
    from mc import shapes as S, alphabet as A
    out = {}
    for i, d in enumerate(c17._shape_alphabet('quick')[::3]):
        obj = S.build(d, 0)
        out['shape%%d' %% i] = c17.battery(obj, d['kvs'], d['degrees'])
    # linear algebra histories (every lru_cache of linalg)
    from geomdl import linalg
    mats = [[[2.0, 1.0], [1.0, 3.0]], [[4.0, 1.0, 0.0], [1.0, 4.0, 1.0], [0.0, 1.0, 4.0]], [[0.0, 2.0, 1.0], [1.0, 1.0, 0.0], [3.0, 0.0, 1.0]]]
    la = []
    for m1 in mats:
        for m2 in mats:
            r = []
            for m in (m1, m2):
                n = len(m)
                b = [[float(i + j) for j in range(2)] for i in range(n)]
                import copy
                r.append(linalg.matrix_pivot(copy.deepcopy(m)))
                r.append(linalg.matrix_inverse(copy.deepcopy(m)))
                r.append(linalg.lu_solve(copy.deepcopy(m) if m[0][0] != 0 else [[1.0, 0.0, 0.0], [0.0, 1.0, 0.0], [0.0, 0.0, 1.0]], b))
                r.append([linalg.binomial_coefficient(7, k) for k in range(8)])
                r.append(linalg.matrix_identity(n))
            la.append(r)
    out['linalg'] = la
print(json.dumps(out))
'''


def cache_size_runs(ctx):
    results = {}
    for val in (None, '1', '16', '1024'):
        env = dict(os.environ)
        env.pop('GEOMDL_CACHE_SIZE', None)
        if val is not None:
            env['GEOMDL_CACHE_SIZE'] = val
        env['PYTHONHASHSEED'] = '0'
        case = dict(mode='cache_size', value=val)
        feats = dict(cache_size=val)
        p = subprocess.run([sys.executable, '-W', 'ignore', '-c', CACHE_SCRIPT % dict(verif=core.VERIF)], env=env,
                           stdout=subprocess.PIPE, stderr=subprocess.PIPE, cwd=core.VERIF, timeout=600)
        ctx.cases += 1
        ctx.state(case, nontrivial=val is not None)
        if p.returncode != 0:
            err = p.stderr.decode()[-600:]
            ctx.check('C17.cache_size.no_new_failure', False, case, feats, 'package imports and battery runs', err)
            continue
        ctx.check('C17.cache_size.no_new_failure', True, case, feats)
        try:
            results[val] = json.loads(p.stdout.decode().strip().splitlines()[-1])
        except Exception as e:
            ctx.check('C17.cache_size.no_new_failure', False, case, feats, 'battery output', repr(e) + p.stdout.decode()[-300:])
    ref = results.get(None)
    if ref is None:
        return
    for val, res in results.items():
        if val is None:
            continue
        same = json.dumps(res, sort_keys=True) == json.dumps(ref, sort_keys=True)
        ctx.check('C17.cache_size.same_results', same, dict(mode='cache_size', value=val), dict(cache_size=val),
                  'canonical JSON equal to the run with the variable unset', None if same else _diff(ref, res))


def main(tier, seed, budget, nproc):
    ctx, info = core.run_cases(sys.modules[__name__], tier, seed, budget, nproc)
    # real pool conformance and fresh interpreters run in the main (non-daemonic) process
    with core.quiet():
        for procs in ((2, 4) if tier == 'quick' else (2, 4, 8)):
            ctx.cases += 1
            _real_pool(dict(mode='real_pool', procs=procs), ctx)
        cache_size_runs(ctx)
    info['total_cases'] = info.get('total_cases', 0) + (2 if tier == 'quick' else 3) + 4
    info['completed_cases'] = ctx.cases
    extra = dict(schedules_explored=ctx.extra.get('schedules_explored', 0))
    return ctx, info, extra

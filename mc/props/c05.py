"""C05 - knot refinement never changes the shape (explorer E1)."""
import itertools
from fractions import Fraction as F

from .. import alphabet as A
from .. import refmodel as R
from .. import shapes as S
from .. import util_knots as K

PROPERTY = "C05"
VIA_HISTORY_EVERY = 9      # every k-th shape case is also run on an object that reached its definition through edits
EXPLORERS = ['E1']
RULE = ("E1: the clamped curves, surfaces, volumes and non-normalised shapes of C04 (rational and not, pairwise different "
        "sizes) x every density vector in {0..2}^d (thorough {0..3}^d) including the empty selection, capped by the "
        "product of 2^density over the selected directions (surfaces 16 / all, volumes 8 / 16), through "
        "operations.refine_knotvector; helpers.knot_refinement on point rows (curves) and rows-of-points (both directions "
        "of surface nets) with every subset of the distinct interior knots as knot_list (single knots included; the empty "
        "list only together with additional knots) x add_knot_list subset of {1/3, 5/8} x density 1..2 (thorough 1..3); "
        "non-trivial = at least one direction selected / one knot requested")
ASSUMPTIONS = [
    "on one knot span of the refined vector both definitions are polynomial (rational: quotients) of degree p per direction, so "
    "agreement at p+1 (2p+1) interior parameters per span and direction on the tensor grid decides equality of the shapes",
    "refinement is linear in the homogeneous net for fixed knots: an injective index-coded net (+ coded weights, thorough: a seeded "
    "net with seeded weights) exposes any index, coefficient or ordering error",
    "all knots of the shape alphabet are dyadic, so d-fold bisection is exact in binary64 and breakpoints are compared exactly; "
    "helper-level requested knots 1/3, 5/8 and their midpoints are compared with tolerance 1e-14",
    "helper level: when every requested knot already has multiplicity p there is nothing to insert and a GeomdlException is accepted; "
    "a requested value within 1e-12 of an existing knot is that knot (the library's multiplicity count is tolerance based)",
    "tolerance 1e-9 relative to max(1,|P|) between two exact evaluations",
]
TOL = 1e-9
ADD = [1.0 / 3.0, 0.625]


def bounds(tier):
    return dict(
        quick=dict(shapes='as C04 quick', densities='{0,1,2}^d, product of 2^density <= 16 (surfaces) / 8 (volumes)',
                   helper='curves p<=3 over K(p,2,4): all knot subsets x 4 add lists x density 1..2; rows-of-points on surface nets with degree sum <= 4'),
        thorough=dict(shapes='as C04 thorough', densities='{0..3}^d, product of 2^density <= 64 (surfaces) / 16 (volumes)',
                      helper='curves as C04 thorough: all knot subsets x 4 add lists x density 1..3; rows-of-points on surface nets with degree sum <= 5'))[tier]


def _density_vectors(pdim, tier):
    D = 2 if tier == 'quick' else 3
    cap = {1: 8, 2: 16 if tier == 'quick' else 64, 3: 8 if tier == 'quick' else 16}[pdim]
    out = []
    for vec in itertools.product(range(D + 1), repeat=pdim):
        if K.prod(2 ** d for d in vec) <= cap:
            out.append(list(vec))
    out.sort(key=lambda v: (sum(v), v))
    return out


def gen_cases(tier, seed):
    q = tier == 'quick'
    cases = []
    for d in K.curve_shapes(tier):
        cases.append(dict(kind='refine', shape=d))
        if not d['rational'] or d['net'] == 'coded':
            cases.append(dict(kind='helper', shape=d))
    for d in K.nonnormalised_shapes(tier):
        cases.append(dict(kind='refine', shape=d))
    for d in K.surface_shapes(tier):
        cases.append(dict(kind='refine', shape=d))
        if sum(d['degrees']) <= (4 if q else 5) and d['net'] == 'coded':
            cases.append(dict(kind='helper', shape=d))
    for d in K.volume_shapes(tier):
        # one case per density vector: volumes are the expensive ones
        for vec in _density_vectors(3, tier):
            cases.append(dict(kind='refine', shape=d, densities=[vec]))
    return cases


def case_weight(c):
    d = c['shape']
    w = K.shape_weight(d)
    if c['kind'] == 'helper':
        nk = sum(len(set(kv)) - 2 for kv in d['kvs'])
        return w * (2 ** nk) * 2
    if 'densities' in c:
        return w * max(K.prod(4 ** x for x in v) for v in c['densities'])
    return w * 16 * (4 if d['pdim'] == 2 else 1)


# ----------------------------------------------------------------------------------------

def _bisect(bps, d):
    bps = list(bps)
    for _ in range(d):
        nxt = []
        for a, b in zip(bps, bps[1:]):
            nxt += [a, (a + b) / 2]
        nxt.append(bps[-1])
        bps = nxt
    return bps


def _refine_case(case, ctx):
    from geomdl import operations
    desc = case['shape']
    pd = desc['pdim']
    obj0 = S.build(desc, ctx.seed)
    d_orig = R.def_from_obj(obj0)
    scale = K.geo_scale(d_orig)
    snap0 = S.snapshot(obj0)
    ctx.state(dict(d=desc, s=ctx.seed if 'seeded' in (desc['net'], desc.get('weights')) else 0), nontrivial=True)
    for vec in case.get('densities') or _density_vectors(pd, ctx.tier):
        obj = S.build(desc, ctx.seed)
        sel = [a for a in range(pd) if vec[a] > 0]
        feats = dict(pdim=pd, rational=desc['rational'], degrees=list(desc['degrees']), densities=list(vec),
                     direction=K.dirs_name(sel), ndirs=len(sel), density=max(vec), normalize_kv=desc.get('normalize_kv', True),
                     net=desc['net'].split(':')[0], interior_knots=[len(set(k)) - 2 for k in snap0['kvs']])
        rc = dict(kind='refine', shape=desc, densities=[list(vec)])
        try:
            operations.refine_knotvector(obj, list(vec))
            snap = S.snapshot(obj)
        except Exception as e:
            ctx.check('C05.refine.accepted', False, rc, feats, 'refinement is carried out', repr(e)[:300])
            continue
        ctx.check('C05.refine.accepted', True, rc, feats)
        if not sel:
            ctx.check('C05.refine.none_selected', snap == snap0, rc, feats, 'snapshot unchanged', dict(kvs=snap['kvs'], sizes=snap['sizes']))
            continue
        ok = True
        for a in range(pd):
            p = desc['degrees'][a]
            fa = dict(feats, dir=K.DIRN[a], degree=p, selected=vec[a] > 0, dir_density=vec[a])
            U0 = d_orig['kvs'][a]
            U1 = [F(x) for x in snap['kvs'][a]]
            if vec[a] == 0:
                ok &= ctx.check('C05.refine.unselected', snap['kvs'][a] == snap0['kvs'][a] and snap['sizes'][a] == snap0['sizes'][a],
                                rc, fa, dict(kv=snap0['kvs'][a], size=snap0['sizes'][a]), dict(kv=snap['kvs'][a], size=snap['sizes'][a]))
                continue
            n0 = len(U0) - p - 1
            bps0 = sorted(set(U0[p:n0 + 1]))
            exp_bps = _bisect(bps0, vec[a])
            got_bps = sorted(set(U1))
            # midpoints of non-dyadic knots are rounded by the library's float arithmetic: equal within rounding, same count
            bps_ok = len(got_bps) == len(exp_bps) and all(abs(g - e) <= 1e-12 * max(1, abs(e)) for g, e in zip(got_bps, exp_bps))
            ok &= ctx.check('C05.refine.breakpoints', bps_ok, rc, fa, [float(x) for x in exp_bps], [float(x) for x in got_bps],
                            'distinct knots = d-fold bisection of the original breakpoints (within float rounding)')
            mult_ok = all(R.multiplicity(U1, b) == (p + 1 if b in (exp_bps[0], exp_bps[-1]) else p) for b in got_bps)
            ok &= ctx.check('C05.refine.multiplicity', mult_ok and all(x <= y for x, y in zip(U1, U1[1:])), rc, fa,
                            'sorted, interior multiplicity p, ends p+1', snap['kvs'][a])
            ok &= ctx.check('C05.refine.size', snap['sizes'][a] == len(U1) - p - 1, rc, fa, len(U1) - p - 1, snap['sizes'][a])
        ok &= ctx.check('C05.refine.degrees', snap['degrees'] == snap0['degrees'] and snap['rational'] == snap0['rational'], rc,
                        feats, snap0['degrees'], snap['degrees'])
        ok &= ctx.check('C05.refine.net_length', len(snap['P']) == K.prod(snap['sizes']) and
                        all(len(pt) == len(snap0['P'][0]) for pt in snap['P']), rc, feats, K.prod(snap['sizes']), len(snap['P']))
        if desc['rational']:
            ctx.check('C05.refine.weights_positive', all(pt[-1] > 0 for pt in snap['P']), rc, feats, '> 0', min(pt[-1] for pt in snap['P']))
        d_new = R.def_from_obj(obj)
        wellformed = (len(d_new['P']) == K.prod(d_new['sizes']) and
                      all(len(U) == n + p + 1 and all(x <= y for x, y in zip(U, U[1:]))
                          for U, n, p in zip(d_new['kvs'], d_new['sizes'], d_new['degrees'])))
        if not wellformed:
            ctx.check('C05.refine.geometry', False, rc, feats, 'a well formed definition', dict(sizes=d_new['sizes']))
            continue
        ps = K.param_sets(d_new)
        try:
            K.same_shape(ctx, 'C05.refine.geometry', d_new, ps, d_orig, ps, scale, rc, feats, TOL)
        except ValueError:
            ctx.check('C05.refine.geometry', False, rc, feats, 'same parametric domain', None, 'parameter outside a domain')
        ctx.state(dict(kvs=snap['kvs'], P=[[round(c, 9) for c in pt] for pt in snap['P'][:64]]), nontrivial=True)
        ctx.outcome(tuple(tuple(k) for k in snap['kvs']))


# ----------------------------------------------------------------------------------------
# helper level
# ----------------------------------------------------------------------------------------

def _subsets(xs):
    out = []
    for k in range(len(xs) + 1):
        out.extend(list(c) for c in itertools.combinations(xs, k))
    return out


def _helper_requests(p, kv, tier):
    """(knot_list, add_knot_list, density) triples, simplest first"""
    n = len(kv) - p - 1
    lo, hi = kv[p], kv[n]
    interior = sorted(set(k for k in kv if lo < k < hi))
    ADD = [lo + (hi - lo) * a for a in globals()['ADD']] if (lo, hi) != (0.0, 1.0) else globals()['ADD']   # inside the domain
    dens = [1, 2] if tier == 'quick' else [1, 2, 3]
    out = []
    if len(interior) > 4:
        # long knot vectors (tall slice): no knot, every knot, each single knot, the two halves, every other knot
        half = len(interior) // 2
        kls = [[], list(interior)] + [[t] for t in interior] + [interior[:half], interior[half:], interior[::2], interior[1::2]]
    else:
        kls = _subsets(interior)
    for kl in kls:
        for add in _subsets(ADD):
            if not kl and not add:
                continue
            for d in dens:
                out.append((kl, add, d))
    # additional knots that coincide with a knot already in the list, or are named twice (the documented add_knot_list option)
    if interior:
        t = interior[0]
        for kl in ([], [t], list(interior)):
            for add in ([t], [t, t], [ADD[0], ADD[0]], [t, ADD[1]]):
                for d in dens:
                    out.append((kl, add, d))
    out.append(([], [ADD[1], ADD[1]], 1))
    out.sort(key=lambda t: (len(t[0]) + len(t[1]), t[2]))
    # the documented default knot list (every knot of the domain, repeated ones included) with and without the documented
    # option check_num=False
    for d in dens:
        out.append((['__default__'], [], d))
        out.append((['__default__', '__nocheck__'], [], d))
        out.append((['__default__', '__nocheck__'], [ADD[0]], d))
    return out


def _leaves(x):
    if len(x) and isinstance(x[0], (int, float)):
        yield x
    else:
        for y in x:
            for z in _leaves(y):
                yield z


def _helper_one(ctx, case, desc, a, p, kv, rows_form, ctrl, build_def, d_orig, scale, kl, add, dens):
    """one call of helpers.knot_refinement; ctrl = control points in the form handed to the helper"""
    from geomdl import helpers
    from geomdl.exceptions import GeomdlException
    opts = {}
    default_list = '__default__' in kl
    if '__nocheck__' in kl:
        opts['check_num'] = False
    if default_list:
        kl_marker = list(kl)
        kl = [float(k) for k in kv[p:len(kv) - p]]          # what the helper takes when no knot list is given
    req = sorted(set(kl + add))
    final = _bisect([F(x) for x in req], dens) if len(req) > 1 else [F(x) for x in req]
    U0 = [F(x) for x in kv]
    # a requested value that meets an existing knot up to rounding (e.g. the midpoint of float(1/3) and 1/2 next to the knot
    # 3/8) IS that knot: the library counts multiplicities with a tolerance, and the property does not ask for near-duplicates
    final = [next((x for x in U0 if abs(x - k) <= F(1, 10 ** 12)), k) for k in final]
    need = [(k, p - R.multiplicity(U0, k)) for k in final]
    n0 = len(kv) - p - 1
    spans = R.nonempty_spans(p, U0)
    ins = [k for k, r in need if r > 0]
    feats = dict(pdim=desc['pdim'], rational=desc['rational'], degree=p, degrees=list(desc['degrees']), dir=K.DIRN[a],
                 spans=len(spans), first_inside_last_span=bool(ins) and min(ins) > U0[spans[-1]],
                 last_in_last_span=bool(ins) and max(ins) >= U0[spans[-1]],
                 n_knot_list=len(kl), n_add=len(add), n_requested=len(req), density=dens,
                 form='rows' if rows_form else 'points', nothing_to_insert=all(r <= 0 for _, r in need),
                 on_existing_knot=any(0 < r < p for _, r in need))
    rc = dict(kind='helper', shape=desc, only=dict(dir=a, knot_list=list(kl_marker if default_list else kl), add=list(add), density=dens))
    feats.update(default_knot_list=default_list, check_num=opts.get('check_num', True))
    # The point lists handed to the helper are usually the point lists of a live shape: their coordinates must not move
    # (otherwise refining through the helper changes the source shape).  Row containers of the rows-of-points form are
    # scratch lists of the caller and are not judged.
    leaves = list(_leaves(ctrl))
    leaf_vals = [list(x) for x in leaves]
    kv_arg, kl_arg, add_arg = list(kv), list(kl), list(add)
    try:
        if default_list:
            new_cp, new_kv = helpers.knot_refinement(p, kv_arg, ctrl, add_knot_list=add_arg, density=dens, **opts)
        else:
            new_cp, new_kv = helpers.knot_refinement(p, kv_arg, ctrl, knot_list=kl_arg, add_knot_list=add_arg, density=dens, **opts)
        ctx.check('C05.helper.input_points_unchanged', all(list(x) == v for x, v in zip(leaves, leaf_vals)) and
                  kv_arg == list(kv), rc, feats, 'coordinates of the input points and the knot vector argument unchanged', None)
    except GeomdlException as e:
        ctx.check('C05.helper.accepts', feats['nothing_to_insert'], rc, feats, 'refined control points and knot vector', repr(e),
                  'rejected although knots have to be inserted')
        return
    except Exception as e:
        ctx.check('C05.helper.no_crash', False, rc, feats, 'refined control points and knot vector', repr(e),
                  'helpers.knot_refinement raised a non-geomdl exception on an admissible request')
        return
    ctx.check('C05.helper.no_crash', True, rc, feats)
    exp_kv = sorted(U0 + [k for k, r in need for _ in range(max(r, 0))])
    got = [F(x) for x in new_kv]
    kv_ok = len(got) == len(exp_kv) and all(abs(float(x - y)) <= 1e-14 * max(1.0, abs(float(y))) for x, y in zip(got, exp_kv)) and \
        all(x <= y for x, y in zip(got, got[1:]))
    ctx.check('C05.helper.knotvector', kv_ok, rc, feats, [float(x) for x in exp_kv], list(new_kv),
              'original knots plus every requested knot (after d-fold bisection of the request list) raised to multiplicity p')
    if not ctx.check('C05.helper.size', len(new_cp) == len(new_kv) - p - 1, rc, feats, len(new_kv) - p - 1, len(new_cp)):
        return
    if not kv_ok:
        return
    try:
        d_new = build_def(new_cp, list(new_kv))
    except Exception as e:
        ctx.check('C05.helper.geometry', False, rc, feats, 'well formed control points', repr(e))
        return
    ps = K.param_sets(d_new)
    K.same_shape(ctx, 'C05.helper.geometry', d_new, ps, d_orig, ps, scale, rc, feats, TOL)
    ctx.outcome(('h', tuple(new_kv)))


def _helper_case(case, ctx):
    desc = case['shape']
    pd = desc['pdim']
    obj = S.build(desc, ctx.seed)
    d_orig = R.def_from_obj(obj)
    scale = K.geo_scale(d_orig)
    kvs0 = K.obj_kvs(obj)
    pts, w, pw = S.net_points(desc, ctx.seed)
    P = pw if desc['rational'] else pts
    only = case.get('only')
    ctx.state(dict(h=desc), nontrivial=True)
    if pd == 1:
        p, kv = desc['degrees'][0], kvs0[0]
        reqs = [(only['knot_list'], only['add'], only['density'])] if only else _helper_requests(p, kv, ctx.tier)
        for kl, add, dens in reqs:
            ctrl = [list(x) for x in P]
            _helper_one(ctx, case, desc, 0, p, kv, False, ctrl,
                        lambda cp, nkv: R.shape_def([p], [nkv], [len(cp)], cp, desc['rational']),
                        d_orig, scale, list(kl), list(add), dens)
        return
    su, sv = desc['sizes']
    for a in (0, 1):
        if only and only['dir'] != a:
            continue
        p, kv = desc['degrees'][a], kvs0[a]
        reqs = [(only['knot_list'], only['add'], only['density'])] if only else _helper_requests(p, kv, ctx.tier)
        for kl, add, dens in reqs:
            if a == 0:
                rows = [[list(P[v + sv * i]) for v in range(sv)] for i in range(su)]

                def build_def(cp, nkv):
                    assert all(len(row) == sv for row in cp)
                    flat = [cp[i][v] for i in range(len(cp)) for v in range(sv)]
                    return R.shape_def(desc['degrees'], [nkv, kvs0[1]], [len(cp), sv], flat, desc['rational'])
            else:
                rows = [[list(P[j + sv * i]) for i in range(su)] for j in range(sv)]

                def build_def(cp, nkv):
                    assert all(len(row) == su for row in cp)
                    flat = [cp[j][i] for i in range(su) for j in range(len(cp))]
                    return R.shape_def(desc['degrees'], [kvs0[0], nkv], [su, len(cp)], flat, desc['rational'])
            _helper_one(ctx, case, desc, a, p, kv, True, rows, build_def, d_orig, scale, list(kl), list(add), dens)


def run_case(case, ctx):
    if case['kind'] == 'refine':
        _refine_case(case, ctx)
    elif case['kind'] == 'helper':
        _helper_case(case, ctx)
    else:
        raise ValueError("unknown case kind %r" % case['kind'])

"""C13 - one control-net layout convention (v fastest, then u, then w) across all modules (explorer E1)."""
import itertools
from fractions import Fraction as F

from .. import alphabet as A
from .. import core
from .. import refmodel as R
from .. import shapes as S

PROPERTY = "C13"
VIA_HISTORY_EVERY = 5      # every k-th shape case is also run on an object that reached its definition through edits
EXPLORERS = ['E1']
RULE = ("E1: surface sizes (su,sv) in {2,3,4}x{2..5}, su != sv, volume sizes = the 6 permutations of (2,3,4), every degree "
        "combination 1..D (D=2 quick, 3 thorough) the size admits, rational or not, index-coded nets (injective, non-symmetric "
        "in (i,j,k)) and coded weights; every routine that addresses the net by (u,v,w): ctrlpts2d getter/setter, corner "
        "evaluation, the three control-point managers, the compatibility flip helpers, transpose, flip, extract_curves/"
        "construct_surface (u,v), extract_surfaces/construct_volume (u,v,w), extract_isosurface, sweep_vector; results are "
        "compared component-wise and through the exact model at p+1 (2p+1 rational) parameters per span and direction; "
        "non-trivial = every case (sizes pairwise different)")
ASSUMPTIONS = [
    "the reference layout is the one of the property text: flat index v + sv*(u + su*w); the evaluator's own use of it is decided by C01",
    "matching directions: extract_curves()['v'] (curves running along v, one per u index) is re-stacked with construct_surface('u'), "
    "['u'] with 'v'; extract_surfaces()['vw'|'uw'|'uv'] with construct_volume('u'|'v'|'w') - the only pairing under which the "
    "documented size/knot assignments of both routines agree",
    "sweep_vector: any boundary direction and either end may carry the input (the property only asks for two opposite boundary "
    "sections); the remaining parameters keep the input's order",
    "extract_isosurface: the six faces are matched as a set against the six boundary faces (order of the tuple not constrained)",
    "operations.flip reverses both index directions (design C13); knots are left alone",
    "weights go through one multiply/divide round trip in construct_*: tolerance 1e-9, everything structural exact",
]
TOL = 1e-9
INTERIOR = {0: [], 1: [0.5], 2: [0.25, 0.5], 3: [0.25, 0.5, 0.75]}
VECS = [[1.0, -2.0, 0.5], [0.0, 0.0, 3.0]]


def bounds(tier):
    D = 2 if tier == 'quick' else 3
    return dict(surface_sizes='{2,3,4}x{2..5}, su != sv; 11x3, 4x12, 17x18', volume_sizes='permutations of (2,3,4); 11x3x2, 2x11x3, 3x2x11, 9x5x6, 7x6x7', degrees='1..%d' % D,
                rational=[False, True], net='coded', manager_sizes='curves 2..5, the 9 surface sizes, the 6 volume sizes',
                sweep='curves p 1..%d, surfaces from the surface alphabet, 2 vectors' % D, inplace=[False, True])


# ----------------------------------------------------------------------------------------
# alphabets
# ----------------------------------------------------------------------------------------

def _kv(n, p):
    if n - p - 1 > 3:
        return A.uniform_kv(p, n)
    return A.clamped_kv(p, [(x, 1) for x in INTERIOR[n - p - 1]])


def _desc(sizes, degrees, rational, pole=False):
    degrees = [min(p, n - 1) for n, p in zip(sizes, degrees)]
    d = A.shape_desc([_kv(n, p) for n, p in zip(sizes, degrees)], list(degrees), rational, 3, 'coded', 'coded')
    if pole:
        d['pole'] = True
        d['points'] = [_pole_pt(d, i, j, k) for i, j, k in A.indices(d['sizes'])]
    return d


SURF_SIZES = [(a, b) for a in (2, 3, 4) for b in (2, 3, 4, 5) if a != b]
VOL_SIZES = list(itertools.permutations((2, 3, 4)))
# beyond the small sizes: more than 9 control points in one direction (each direction in turn), more than 256 in total
BIG_SURF = [(11, 3), (4, 12), (17, 18)]
BIG_VOL = [(11, 3, 2), (2, 11, 3), (3, 2, 11), (9, 5, 6), (7, 6, 7)]


def _degree_combos(sizes, D):
    return list(itertools.product(*[range(1, min(D, n - 1) + 1) for n in sizes]))


def gen_cases(tier, seed):
    D = 2 if tier == 'quick' else 3
    cases = []
    for sz in [(n,) for n in (2, 3, 4, 5)] + SURF_SIZES + VOL_SIZES:
        cases.append(dict(kind='manager', sizes=list(sz)))
    for sz in SURF_SIZES:
        cases.append(dict(kind='fliphelpers', sizes=list(sz)))
    for sz in SURF_SIZES:
        for degs in _degree_combos(sz, D):
            for rat in (False, True):
                cases.append(dict(kind='surface', shape=_desc(sz, degs, rat)))
    for n in (2, 3, 4, 5):
        for p in range(1, min(D, n - 1) + 1):
            for rat in (False, True):
                cases.append(dict(kind='sweep', shape=_desc((n,), (p,), rat)))
    for sz in SURF_SIZES:
        for degs in _degree_combos(sz, D):
            if sum(degs) > 4:
                continue
            for rat in (False, True):
                cases.append(dict(kind='sweep', shape=_desc(sz, degs, rat)))
    for sz in VOL_SIZES:
        for degs in _degree_combos(sz, D):
            for rat in (False, True):
                cases.append(dict(kind='volume', shape=_desc(sz, degs, rat)))
    # data variety: coincident control points with different weights (collapsed row, doubled point)
    for sz in SURF_SIZES[::2]:
        for degs in _degree_combos(sz, D)[:2]:
            for rat in (False, True):
                cases.append(dict(kind='surface', shape=_desc(sz, degs, rat, pole=True)))
    for sz in VOL_SIZES[::2]:
        cases.append(dict(kind='volume', shape=_desc(sz, (1, 1, 1), True, pole=True)))
    cases.append(dict(kind='sweep', shape=_desc((3, 4), (1, 2), True, pole=True)))
    for sz in [(11,), (12,), (258,)] + BIG_SURF + BIG_VOL:
        cases.append(dict(kind='manager', sizes=list(sz)))
    for sz in BIG_SURF:
        cases.append(dict(kind='fliphelpers', sizes=list(sz)))
        for degs, rat in (((1, 1), False), ((2, 1), True), ((2, 2), False)):
            if tier == 'quick' and sz[0] * sz[1] > 256 and degs == (2, 2):
                continue
            cases.append(dict(kind='surface', shape=_desc(sz, degs, rat)))
        if sz[0] * sz[1] < 100:
            for degs, rat in (((1, 2), False), ((2, 1), True)):
                cases.append(dict(kind='sweep', shape=_desc(sz, degs, rat)))
    for n, p, rat in ((11, 1, False), (12, 2, True), (11, 3, True)):
        cases.append(dict(kind='sweep', shape=_desc((n,), (p,), rat)))
    for sz in BIG_VOL:
        for degs, rat in (((1, 1, 1), False), ((2, 1, 1), True)) + (() if tier == 'quick' else (((1, 2, 2), False),)):
            if tier == 'quick' and sz[0] * sz[1] * sz[2] > 256 and rat:
                continue        # the rational huge volumes cost ~40 s each: thorough only
            cases.append(dict(kind='volume', shape=_desc(sz, degs, rat)))
    cases.append(dict(kind='session', name='sizes'))
    cases.append(dict(kind='container', shapes=[_desc((2, 3), (1, 2), False), _desc((4, 3), (2, 1), True), _desc((3, 5), (2, 2), False)]))
    return cases


def case_weight(c):
    if c.get('kind') == 'session':
        return 3000
    if 'shape' not in c:
        return 1
    d = c['shape']
    w = 1
    for kv, p in zip(d['kvs'], d['degrees']):
        w *= len(kv) * (p + 1)
    return w * (3 if d['rational'] else 1) * (8 if c['kind'] == 'volume' else 1)


def _session_cases(name, tier):
    """long session: extraction / construction on nets of 48 pairwise different sizes (surfaces a x b, volumes a x b x 2), small first"""
    out = []
    for a in range(2, 8):
        for b in range(2, 10):
            if a == b:
                continue
            out.append(dict(kind='surface', shape=_desc((a, b), (1, 1), (a + b) % 2 == 0), only='extract_curves'))
            if (a + b) % 3 == 0:
                out.append(dict(kind='volume', shape=_desc((a, b, 2 + (a % 2)), (1, 1, 1), False), only='extract_surfaces'))
    return out


def run_case(case, ctx):
    if case.get('kind') == 'session':
        import sys
        return core.run_session(sys.modules[__name__], ctx, case, _session_cases(case['name'], ctx.tier), 12)
    ctx.state(case, nontrivial=True)
    {'manager': _manager, 'fliphelpers': _fliphelpers, 'surface': _surface, 'volume': _volume, 'sweep': _sweep,
     'container': _container}[case['kind']](case, ctx)


# ----------------------------------------------------------------------------------------
# helpers
# ----------------------------------------------------------------------------------------

def _pole_pt(desc, i, j, k):
    """data variety: nets with coincident control points that carry different weights - the whole row u = 0 collapsed to one
    point (a pole / cone apex), and two coincident points elsewhere"""
    if desc.get('pole'):
        if i == 0:
            j = 0
        elif i == desc['sizes'][0] - 1 and j == 1:
            j = 0
    return A._coded(i, j, k, desc['dim'])


def _hpt(desc, idx):
    """the (homogeneous, if rational) control point the descriptor puts at (u,v,w) - straight from the coding function"""
    i, j, k = (list(idx) + [0, 0])[:3]
    pt = _pole_pt(desc, i, j, k)
    if not desc['rational']:
        return pt
    w = 1.0 + ((2 * i + 3 * j + 5 * k) % 4) / 2.0
    return [c * w for c in pt] + [w]


def _upt(desc, idx):
    i, j, k = (list(idx) + [0, 0])[:3]
    return _pole_pt(desc, i, j, k)


def _sub_def(desc, dirs, fixed):
    """exact definition of the control-net section of `desc` that keeps directions `dirs` (in that order) and fixes the
    other indices as in dict `fixed` {direction: index}"""
    sizes = [desc['sizes'][d] for d in dirs]
    P = []
    for sub in A.indices(sizes):          # flat library order of the lower-dimensional shape
        idx = [0, 0, 0]
        for d, s in zip(dirs, sub):
            idx[d] = s
        for d, s in fixed.items():
            idx[d] = s
        P.append(_hpt(desc, idx[:desc['pdim']]))
    return R.shape_def([desc['degrees'][d] for d in dirs], [desc['kvs'][d] for d in dirs], sizes, P, desc['rational'])


def _params(d, tier_full=True):
    sets = []
    for U, p in zip(d['kvs'], d['degrees']):
        per = (2 * p + 1) if d['rational'] else (p + 1)
        sets.append(A.params_for(p, [float(x) for x in U], per_span=per, extras=False))
    return sets


def _consistent(d):
    n = 1
    for s in d['sizes']:
        n *= s
    return (len(d['P']) == n and all(len(U) == s + p + 1 for U, s, p in zip(d['kvs'], d['sizes'], d['degrees']))
            and len({len(p) for p in d['P']}) == 1)


def _same_shape(ctx, obl, obj, exp, rc, f, params=None, remap=None):
    """library object `obj` must be the shape `exp` (exact definition): kind, degrees, sizes, knots, control points, and
    the exact model of obj evaluated at every parameter equals the model of exp. remap: parameter permutation for exp."""
    try:
        got = R.def_from_obj(obj)
    except Exception as ex:
        return ctx.check(obl + '.definition', False, rc, f, 'a spline object', repr(ex))
    ok = (got['rational'] == exp['rational'] and got['degrees'] == exp['degrees'] and got['sizes'] == exp['sizes']
          and obj.pdimension == len(exp['degrees']))
    ok = ctx.check(obl + '.structure', ok, rc, f, dict(rational=exp['rational'], degrees=exp['degrees'], sizes=exp['sizes']),
                   dict(rational=got['rational'], degrees=got['degrees'], sizes=got['sizes']))
    kv_ok = ctx.close(obl + '.knots', [list(k) for k in got['kvs']], [list(k) for k in exp['kvs']], 1e-12, 1.0, rc, f)
    ok = kv_ok and ok
    scale = max(1.0, max(abs(float(c)) for p in exp['P'] for c in p))
    ok = ctx.close(obl + '.ctrlpts', [list(p) for p in got['P']], [list(p) for p in exp['P']], TOL, scale, rc, f) and ok
    if not (kv_ok and _consistent(got) and got['degrees'] == exp['degrees'] and got['sizes'] == exp['sizes'] and
            got['rational'] == exp['rational']):
        return False        # already reported above; the model of `got` cannot be evaluated on exp's parameters
    psets = params or _params(exp)
    gv, ev = [], []
    for prm in itertools.product(*psets):
        gv.append(R.eval_point(got, prm))
        ev.append(R.eval_point(exp, prm))
    return ctx.close(obl + '.points', gv, ev, TOL, scale, rc, f) and ok


def _feat(desc, **kw):
    f = dict(pdim=desc['pdim'], rational=desc['rational'], sizes=list(desc['sizes']), degrees=list(desc['degrees']))
    f.update(kw)
    return f


def _pt(p):
    return list(p) if isinstance(p, (list, tuple)) else p


def _attempt(ctx, obl, fn, rc, f):
    """run a library call that the property expects to return a result; an exception is the violation"""
    try:
        return True, fn()
    except Exception as ex:
        ctx.check(obl, False, rc, f, 'a result', repr(ex), 'call raised')
        return False, None


# ----------------------------------------------------------------------------------------
# control-point managers
# ----------------------------------------------------------------------------------------

def _manager(case, ctx):
    from geomdl import control_points, BSpline
    sizes = case['sizes']
    pd = len(sizes)
    cls = {1: control_points.CurveManager, 2: control_points.SurfaceManager, 3: control_points.VolumeManager}[pd]
    f = dict(kind='manager', pdim=pd, sizes=sizes)
    desc = _desc(sizes, [1] * pd, False)
    flat = [_upt(desc, idx[:pd]) for idx in A.indices(sizes)]           # library order by definition of the property
    allidx = list(itertools.product(*[range(n) for n in sizes]))
    # setting through the manager
    mgr = cls(*sizes)
    get = lambda m, idx: _pt(m.get_ctrlpt(*idx))
    ok, _ = _attempt(ctx, 'C13.manager.set_ctrlpt', lambda: [mgr.set_ctrlpt(_upt(desc, idx), *idx) for idx in allidx], case, f)
    if not ok:
        return
    ctx.check('C13.manager.set_then_flat', [_pt(p) for p in mgr.ctrlpts] == flat, case, f, flat, mgr.ctrlpts)
    ctx.check('C13.manager.set_then_get', all(get(mgr, idx) == _upt(desc, idx) for idx in allidx), case, f,
              'get_ctrlpt(u,v,w) returns what set_ctrlpt(u,v,w) stored', None)
    ctx.check('C13.manager.flat_index', len(mgr) == len(flat) and [_pt(p) for p in mgr] == flat and
              all(_pt(mgr[R.flat_index(sizes, idx)]) == _upt(desc, idx) for idx in allidx), case, f,
              'manager[v + sv*(u + su*w)] = P(u,v,w)', None)
    # getting through the manager from a real shape
    obj = S.build(desc)
    mg2 = cls(*sizes)
    mg2.ctrlpts = obj.ctrlpts
    bad = [idx for idx in allidx if get(mg2, idx) != _upt(desc, idx)]
    ctx.check('C13.manager.get_from_shape', not bad, case, f, 'get_ctrlpt(u,v,w) of a shape net = P(u,v,w)', bad[:3])
    if pd == 2:
        bad = [idx for idx in allidx if get(mg2, idx) != list(obj.ctrlpts2d[idx[0]][idx[1]])]
        ctx.check('C13.manager.agrees_with_ctrlpts2d', not bad, case, f, 'get_ctrlpt(u,v) = ctrlpts2d[u][v]', bad[:3])
    # a shape fed from the manager (as in the class documentation) has P(u,v,w) where the model expects it
    new = {1: BSpline.Curve, 2: BSpline.Surface, 3: BSpline.Volume}[pd]()

    def feed():
        if pd == 1:
            new.degree = 1
            new.ctrlpts = mgr.ctrlpts
            new.knotvector = desc['kvs'][0]
        else:
            for name, n, p, in zip('uvw', sizes, desc['degrees']):
                setattr(new, 'degree_' + name, p)
                setattr(new, 'ctrlpts_size_' + name, n)
            new.ctrlpts = mgr.ctrlpts
            for name, kv in zip('uvw', desc['kvs']):
                setattr(new, 'knotvector_' + name, kv)
    ok, _ = _attempt(ctx, 'C13.manager.feeds_shape.result', feed, case, f)
    if not ok or not _same_shape(ctx, 'C13.manager.feeds_shape', new, S.model_of(desc), case, f):
        return
    # degree 1: the shape interpolates its net at the knots -> evaluated by the library itself
    got, exp = [], []
    for idx in allidx:
        prm = [float(F(desc['kvs'][d][i + 1])) for d, i in enumerate(idx)]
        got.append(new.evaluate_single(prm[0] if pd == 1 else prm))
        exp.append(_upt(desc, idx))
    ctx.close('C13.manager.feeds_shape.library_eval', got, exp, TOL, 50.0, case, f)


# ----------------------------------------------------------------------------------------
# compatibility flip helpers
# ----------------------------------------------------------------------------------------

def _fliphelpers(case, ctx):
    from geomdl import compatibility as C
    su, sv = case['sizes']
    f = dict(kind='fliphelpers', sizes=[su, sv])
    for rat in (False, True):
        desc = _desc((su, sv), (1, 1), rat)
        fr = dict(f, rational=rat)
        P = lambda u, v: _hpt(desc, (u, v))
        vrow = [P(u, v) for u in range(su) for v in range(sv)]     # each row lists the v values: library order
        urow = [P(u, v) for v in range(sv) for u in range(su)]     # each row lists the u values
        grid = [[P(u, v) for v in range(sv)] for u in range(su)]
        gridT = [[P(u, v) for u in range(su)] for v in range(sv)]
        def call(fn, *a):
            try:
                return fn(*a)
            except Exception as ex:     # a wrong stride runs off the list: judged as a wrong answer
                return repr(ex)
        ctx.check('C13.flip_ctrlpts_u', call(C.flip_ctrlpts_u, urow, su, sv) == vrow, case, fr, vrow, call(C.flip_ctrlpts_u, urow, su, sv))
        ctx.check('C13.flip_ctrlpts', call(C.flip_ctrlpts, vrow, su, sv) == urow, case, fr, urow, call(C.flip_ctrlpts, vrow, su, sv))
        ctx.check('C13.flip_ctrlpts.inverse', call(C.flip_ctrlpts, call(C.flip_ctrlpts_u, urow, su, sv), su, sv) == urow and
                  call(C.flip_ctrlpts_u, call(C.flip_ctrlpts, vrow, su, sv), su, sv) == vrow, case, fr, 'mutually inverse', None)
        for args in ((su, sv), ()):
            g = call(C.flip_ctrlpts2d, grid, *args)
            fa = dict(fr, sizes_given=bool(args))
            ctx.check('C13.flip_ctrlpts2d', g == gridT, case, fa, gridT, g)
            back = call(C.flip_ctrlpts2d, g, *reversed(args))
            ctx.check('C13.flip_ctrlpts2d.inverse', back == grid, case, fa, grid, back)
        # the flat and the 2-D helpers describe the same permutation
        g = call(C.flip_ctrlpts2d, grid, su, sv)
        flatT = [p for row in g for p in row] if isinstance(g, list) else g
        ctx.check('C13.flip_helpers.agree', flatT == call(C.flip_ctrlpts, vrow, su, sv), case, fr, 'flattened [v][u] grid = u-row order', None)


# ----------------------------------------------------------------------------------------
# surfaces
# ----------------------------------------------------------------------------------------

def _surface(case, ctx):
    from geomdl import operations, construct, BSpline, NURBS
    desc = case['shape']
    su, sv = desc['sizes']
    pu, pv = desc['degrees']
    rat = desc['rational']
    f0 = _feat(desc, kind='surface')
    only = case.get('only')
    model = S.model_of(desc)
    grid = [[_hpt(desc, (u, v)) for v in range(sv)] for u in range(su)]
    flat = [_hpt(desc, (u, v)) for u in range(su) for v in range(sv)]
    surf = S.build(desc)
    want = lambda tag: only is None or only == tag

    if want('txt2d'):
        # the 2-D text file of the exchange module (documented: one line per u, one column per v) addresses the same points
        import os
        import tempfile
        from geomdl import exchange
        rc = dict(case, only='txt2d')
        tmp = tempfile.mkdtemp(prefix='c13-', dir=os.environ.get('VERIF_TMP') or None)
        try:
            path = os.path.join(tmp, 'net.txt')
            try:
                exchange.export_txt(surf, path, two_dimensional=True)
                with open(path) as fh:
                    lines = [ln for ln in fh.read().split("\n") if ln.strip()]
                cells = [[[float(x) for x in cell.split(',')] for cell in ln.split(';')] for ln in lines]
                ctx.check('C13.export_txt2d.cell_u_v', cells == grid, rc, f0, grid, cells, 'line u, column v = control point (u, v)')
                got, gu, gv = exchange.import_txt(path, two_dimensional=True)
                ctx.check('C13.import_txt2d.flat_order', (gu, gv) == (su, sv) and [list(p) for p in got] == flat, rc, f0,
                          dict(sizes=[su, sv], flat=flat), dict(sizes=[gu, gv], flat=got))
            except Exception as e:
                ctx.check('C13.export_txt2d.cell_u_v', False, rc, f0, 'a 2-D text file', repr(e))
        finally:
            import shutil
            shutil.rmtree(tmp, ignore_errors=True)

    if want('find_ctrlpts'):
        # operations.find_ctrlpts(surf, u, v): the block of control points that act at (u, v), addressed as [k][l] = (span_u - p + k,
        # span_v - q + l) of the same net
        rc = dict(case, only='find_ctrlpts')
        ku, kv_ = [float(k) for k in surf.knotvector_u], [float(k) for k in surf.knotvector_v]
        for fu in (0.0, 0.5, 0.999):
            for fv in (0.0, 0.6):
                u_ = ku[pu] + (ku[su] - ku[pu]) * fu
                v_ = kv_[pv] + (kv_[sv] - kv_[pv]) * fv
                iu = R.find_span(pu, [F(k) for k in ku], F(u_)) - pu
                iv = R.find_span(pv, [F(k) for k in kv_], F(v_)) - pv
                try:
                    blk = operations.find_ctrlpts(surf, u_, v_)
                    got = [[list(p) for p in row] for row in blk]
                except Exception as e:
                    ctx.check('C13.find_ctrlpts.block', False, rc, dict(f0, u=u_, v=v_), 'the active block', repr(e))
                    continue
                exp = [[[float(c) for c in (grid[iu + k][iv + l][:-1] if rat else grid[iu + k][iv + l])] for l in range(pv + 1)]
                       for k in range(pu + 1)]
                if rat:
                    # (the function may return weighted or unweighted points; both address the same (u, v))
                    expw = [[[float(c) for c in grid[iu + k][iv + l]] for l in range(pv + 1)] for k in range(pu + 1)]
                    w_ok = got == expw
                    exp_u = [[[c / grid[iu + k][iv + l][-1] for c in grid[iu + k][iv + l][:-1]] for l in range(pv + 1)] for k in range(pu + 1)]
                    ok = w_ok or core._close(got, exp_u, 1e-12, 1.0)[0]
                else:
                    ok = got == exp
                ctx.check('C13.find_ctrlpts.block', ok, rc, dict(f0, u=u_, v=v_), exp, got, 'block[k][l] = net(span_u - p + k, span_v - q + l)')

    if want('ctrlpts2d'):
        rc = dict(case, only='ctrlpts2d')
        c2 = surf.ctrlpts2d
        flat_lib = surf.ctrlptsw if rat else surf.ctrlpts
        ok = len(c2) == su and all(len(r) == sv for r in c2)
        ctx.check('C13.ctrlpts2d.getter.shape', ok, rc, f0, [su, sv], [len(c2), [len(r) for r in c2]])
        if ok:
            ctx.check('C13.ctrlpts2d.getter', all(list(c2[u][v]) == list(flat_lib[v + sv * u]) for u in range(su) for v in range(sv)),
                      rc, f0, 'ctrlpts2d[u][v] = flat[v + sv*u]', None)
            ctx.check('C13.ctrlpts2d.getter.net', [[list(p) for p in r] for r in c2] == grid, rc, f0, grid, c2)
        # setter: a [u][v] grid lands in flat order; getter o setter = identity; evaluates as the model
        for src, tag in ((grid, 'grid'), (c2, 'getter')):
            new = (NURBS if rat else BSpline).Surface()
            new.degree_u, new.degree_v = pu, pv
            new.ctrlpts2d = [[list(p) for p in row] for row in src]
            new.knotvector_u, new.knotvector_v = desc['kvs']
            fs = dict(f0, source=tag)
            ctx.check('C13.ctrlpts2d.setter.flat', [list(p) for p in (new.ctrlptsw if rat else new.ctrlpts)] == flat and
                      [new.ctrlpts_size_u, new.ctrlpts_size_v] == [su, sv], rc, fs, flat, new.ctrlptsw if rat else new.ctrlpts)
            ctx.check('C13.ctrlpts2d.setter.inverse', [[list(p) for p in r] for r in new.ctrlpts2d] == grid, rc, fs, grid, new.ctrlpts2d)
            _same_shape(ctx, 'C13.ctrlpts2d.setter', new, model, rc, fs)

    if want('corners'):
        rc = dict(case, only='corners')
        doms = R.corner_params(model)
        for eu, ev in itertools.product((0, 1), repeat=2):
            prm = [float(doms[0][eu]), float(doms[1][ev])]
            idx = ((su - 1) * eu, (sv - 1) * ev)
            ctx.close('C13.corner.surface', surf.evaluate_single(prm), _upt(desc, idx), TOL, 50.0, rc, dict(f0, corner=[eu, ev]))
        surf.sample_size = 2
        ep = surf.evalpts
        exp = [_upt(desc, ((su - 1) * eu, (sv - 1) * ev)) for eu in (0, 1) for ev in (0, 1)]
        if len(ep) == 4:        # (how many points a sample size yields is C01's business)
            ctx.close('C13.corner.surface.evalpts', ep, exp, TOL, 50.0, rc, f0)

    if want('transpose'):
        rc = dict(case, only='transpose')
        expT = R.shape_def([pv, pu], [desc['kvs'][1], desc['kvs'][0]], [sv, su],
                           [_hpt(desc, (u, v)) for v in range(sv) for u in range(su)], rat)
        for inplace in (False, True):
            src = S.build(desc)
            fi = dict(f0, op='transpose', inplace=inplace)
            ok, T = _attempt(ctx, 'C13.transpose.result', lambda: operations.transpose(src, inplace=inplace), rc, fi)
            if not ok:
                continue
            # model(T)(v,u) = model(S)(u,v): expT is S with the roles swapped, written down from the coding function
            _same_shape(ctx, 'C13.transpose', T, expT, rc, fi)
            gotd = R.def_from_obj(T)
            if (_consistent(gotd) and gotd['sizes'] == (sv, su) and gotd['degrees'] == (pv, pu)
                    and gotd['kvs'] == (model['kvs'][1], model['kvs'][0])):
                ps = _params(model)
                gv = [R.eval_point(gotd, (b, a)) for a, b in itertools.product(*ps)]
                ev = [R.eval_point(model, (a, b)) for a, b in itertools.product(*ps)]
                ctx.close('C13.transpose.swaps_roles', gv, ev, TOL, 50.0, rc, fi)
            ok2, T2 = _attempt(ctx, 'C13.transpose.result', lambda: operations.transpose(T, inplace=inplace), rc, fi)
            if ok2:
                _same_shape(ctx, 'C13.transpose.involution', T2, model, rc, fi, params=[[0.0, 1.0], [0.0, 1.0]])

    if want('transpose'):
        # the in-place method of the surface object, after every flat / 2-D / unweighted view had been read
        rc = dict(case, only='transpose')
        for opname in ('transpose', 'flip'):
            src = S.build(desc)
            _ = (src.ctrlpts, src.ctrlpts2d, src.bbox, src.evalpts, src.weights if rat else None)
            fi = dict(f0, op=opname + '_method_after_reads', inplace=True)
            if opname == 'transpose':
                ok, _r = _attempt(ctx, 'C13.transpose.result', lambda: src.transpose(), rc, fi)
                exp_def = expT
            else:
                ok, _r = _attempt(ctx, 'C13.flip.result', lambda: operations.flip(src, inplace=True), rc, fi)
                exp_def = R.shape_def([pu, pv], desc['kvs'], [su, sv],
                                      [_hpt(desc, (su - 1 - u, sv - 1 - v)) for u in range(su) for v in range(sv)], rat)
            if not ok:
                continue
            _same_shape(ctx, 'C13.%s' % opname, src, exp_def, rc, fi)
            # all views address the same point for the same (u, v)
            nu, nv = src.ctrlpts_size_u, src.ctrlpts_size_v
            g2 = src.ctrlpts2d
            flat = [list(p) for p in src.ctrlpts]
            wts = list(src.weights) if rat else None
            okv = len(flat) == nu * nv and len(g2) == nu and all(len(r) == nv for r in g2)
            if okv:
                for u in range(nu):
                    for v in range(nv):
                        q = list(g2[u][v])
                        want_pt = [c / q[-1] for c in q[:-1]] if rat else q
                        if any(abs(a - b) > 1e-12 * max(1.0, abs(b)) for a, b in zip(flat[v + nv * u], want_pt)):
                            okv = False
                        if rat and abs(wts[v + nv * u] - q[-1]) > 1e-12:
                            okv = False
            ctx.check('C13.%s.views_agree' % opname, okv, rc, fi, 'ctrlpts[v + size_v*u] and weights agree with ctrlpts2d[u][v]', None)

    if want('flip'):
        rc = dict(case, only='flip')
        expF = R.shape_def([pu, pv], desc['kvs'], [su, sv],
                           [_hpt(desc, (su - 1 - u, sv - 1 - v)) for u in range(su) for v in range(sv)], rat)
        for inplace in (False, True):
            src = S.build(desc)
            fi = dict(f0, op='flip', inplace=inplace)
            ok, Fl = _attempt(ctx, 'C13.flip.result', lambda: operations.flip(src, inplace=inplace), rc, fi)
            if not ok:
                continue
            _same_shape(ctx, 'C13.flip', Fl, expF, rc, fi)
            c2 = Fl.ctrlpts2d
            okg = len(c2) == su and all(len(r) == sv for r in c2) and all(
                list(c2[u][v]) == grid[su - 1 - u][sv - 1 - v] for u in range(su) for v in range(sv))
            ctx.check('C13.flip.ctrlpts2d', okg, rc, fi, 'F.ctrlpts2d[u][v] = S.ctrlpts2d[su-1-u][sv-1-v]', None)

    if want('extract_curves') or want('construct_surface'):
        rc = dict(case, only='extract_curves')
        ok, curves = _attempt(ctx, 'C13.extract_curves.result', lambda: construct.extract_curves(S.build(desc)), rc, f0)
        if not ok:
            return
        # key 'u': curves running along u (degree_u, knotvector_u), one per v index; key 'v' likewise
        for key, d_run, d_fix in (('u', 0, 1), ('v', 1, 0)):
            fk = dict(f0, direction=key)
            lst = curves.get(key, [])
            n_fix = desc['sizes'][d_fix]
            if not ctx.check('C13.extract_curves.count', len(lst) == n_fix, rc, fk, n_fix, len(lst)):
                continue
            for j, crv in enumerate(lst):
                if want('extract_curves'):
                    _same_shape(ctx, 'C13.extract_curves', crv, _sub_def(desc, [d_run], {d_fix: j}), rc, dict(fk, index=j))
            if want('extract_curves'):
                # clamped: the first/last extracted curve is the boundary iso-curve of the surface
                lo, hi = R.corner_params(model)[d_fix]
                for j, fixv in ((0, lo), (n_fix - 1, hi)):
                    dc = R.def_from_obj(lst[j])
                    if not (_consistent(dc) and len(dc['degrees']) == 1 and dc['degrees'][0] == desc['degrees'][d_run]
                            and dc['sizes'][0] == desc['sizes'][d_run]):
                        continue
                    ps = _params(model)[d_run]
                    gv = [R.eval_point(dc, (t,)) for t in ps]
                    ev = [R.eval_point(model, (t, fixv) if d_run == 0 else (fixv, t)) for t in ps]
                    ctx.close('C13.extract_curves.boundary_isocurve', gv, ev, TOL, 50.0, rc, dict(fk, index=j))
        if want('construct_surface'):
            rc = dict(case, only='construct_surface')
            # curves of key 'v' (one per u index) are stacked along u; curves of key 'u' along v
            for direction, key, d_stack in (('u', 'v', 0), ('v', 'u', 1)):
                fd = dict(f0, direction=direction, source='extract_curves')
                lst = curves.get(key, [])
                ok, res = _attempt(ctx, 'C13.construct_surface.result', lambda: construct.construct_surface(
                    direction, *lst, degree=desc['degrees'][d_stack], knotvector=list(desc['kvs'][d_stack])), rc, fd)
                if ok:
                    _same_shape(ctx, 'C13.construct_surface', res, model, rc, fd)
                # independent input: curves built from the coding function, not from extract_curves
                d_run = 1 - d_stack
                mine = []
                for j in range(desc['sizes'][d_stack]):
                    cd = A.shape_desc([desc['kvs'][d_run]], [desc['degrees'][d_run]], rat, 3, 'coded', 'coded')
                    idxs = [((j, t) if d_stack == 0 else (t, j)) for t in range(desc['sizes'][d_run])]
                    cd['points'] = [_upt(desc, i) for i in idxs]
                    cd['weight_values'] = [(_hpt(desc, i)[-1] if rat else 1.0) for i in idxs]
                    mine.append(S.build(cd))
                fd = dict(fd, source='built')
                ok, res = _attempt(ctx, 'C13.construct_surface.result', lambda: construct.construct_surface(
                    direction, *mine, degree=desc['degrees'][d_stack], knotvector=list(desc['kvs'][d_stack])), rc, fd)
                if ok:
                    _same_shape(ctx, 'C13.construct_surface', res, model, rc, fd)


def _container(case, ctx):
    """transpose / flip of a SurfaceContainer act on every element"""
    from geomdl import operations, multi
    descs = case['shapes']
    for opname in ('transpose', 'flip'):
        for inplace in (False, True):
            elems = [S.build(d) for d in descs]
            cont = multi.SurfaceContainer(*elems)
            f = dict(kind='container', container=True, op=opname, inplace=inplace, n_elements=len(descs))
            ok, res = _attempt(ctx, 'C13.%s.result' % opname, lambda: getattr(operations, opname)(cont, inplace=inplace), case, f)
            if not ok:
                continue
            out = [e for e in res]
            if not ctx.check('C13.%s.container.count' % opname, len(out) == len(descs), case, f, len(descs), len(out)):
                continue
            for k, (e, d) in enumerate(zip(out, descs)):
                su, sv = d['sizes']
                if opname == 'transpose':
                    exp = R.shape_def(list(reversed(d['degrees'])), list(reversed(d['kvs'])), [sv, su],
                                      [_hpt(d, (u, v)) for v in range(sv) for u in range(su)], d['rational'])
                else:
                    exp = R.shape_def(d['degrees'], d['kvs'], [su, sv],
                                      [_hpt(d, (su - 1 - u, sv - 1 - v)) for u in range(su) for v in range(sv)], d['rational'])
                _same_shape(ctx, 'C13.%s' % opname, e, exp, case, dict(_feat(d), **dict(f, element=k)))


# ----------------------------------------------------------------------------------------
# volumes
# ----------------------------------------------------------------------------------------

PLANES = {'uv': ((0, 1), 2, 'w'), 'uw': ((0, 2), 1, 'v'), 'vw': ((1, 2), 0, 'u')}


def _volume(case, ctx):
    from geomdl import construct
    desc = case['shape']
    sizes = desc['sizes']
    f0 = _feat(desc, kind='volume')
    only = case.get('only')
    want = lambda tag: only is None or only == tag
    model = S.model_of(desc)
    vol = S.build(desc)
    doms = R.corner_params(model)

    if want('corners'):
        rc = dict(case, only='corners')
        flat = vol.ctrlptsw if desc['rational'] else vol.ctrlpts
        bad = [idx for idx in itertools.product(*[range(n) for n in sizes])
               if list(flat[idx[1] + sizes[1] * (idx[0] + sizes[0] * idx[2])]) != _hpt(desc, idx)]
        ctx.check('C13.volume.flat_order', not bad, rc, f0, 'flat[v + sv*(u + su*w)] = P(u,v,w)', bad[:3])
        for e in itertools.product((0, 1), repeat=3):
            prm = [float(doms[d][e[d]]) for d in range(3)]
            idx = tuple((sizes[d] - 1) * e[d] for d in range(3))
            ctx.close('C13.corner.volume', vol.evaluate_single(prm), _upt(desc, idx), TOL, 100.0, rc, dict(f0, corner=list(e)))

    if not (want('extract_surfaces') or want('construct_volume') or want('extract_isosurface')):
        return
    rc = dict(case, only='extract_surfaces')
    ok, srf = _attempt(ctx, 'C13.extract_surfaces.result', lambda: construct.extract_surfaces(S.build(desc)), rc, f0)
    if ok:
        for key, (dirs, d_fix, dname) in sorted(PLANES.items()):
            fk = dict(f0, plane=key, direction=dname)
            lst = srf.get(key, [])
            if not ctx.check('C13.extract_surfaces.count', len(lst) == sizes[d_fix], rc, fk, sizes[d_fix], len(lst)):
                continue
            if want('extract_surfaces'):
                for j, s in enumerate(lst):
                    _same_shape(ctx, 'C13.extract_surfaces', s, _sub_def(desc, list(dirs), {d_fix: j}), rc, dict(fk, index=j),
                                params=None if j in (0, sizes[d_fix] - 1) else [[0.0, 1.0], [0.0, 1.0]])
            if want('construct_volume'):
                rc2 = dict(case, only='construct_volume')
                fd = dict(f0, direction=dname, source='extract_surfaces')
                ok2, res = _attempt(ctx, 'C13.construct_volume.result', lambda: construct.construct_volume(
                    dname, *lst, degree=desc['degrees'][d_fix], knotvector=list(desc['kvs'][d_fix])), rc2, fd)
                if ok2:
                    _same_shape(ctx, 'C13.construct_volume', res, model, rc2, fd)

    if want('construct_volume'):
        # independent input: surfaces built from the coding function
        rc2 = dict(case, only='construct_volume')
        for key, (dirs, d_fix, dname) in sorted(PLANES.items()):
            mine = []
            for j in range(sizes[d_fix]):
                sd = A.shape_desc([desc['kvs'][d] for d in dirs], [desc['degrees'][d] for d in dirs], desc['rational'], 3, 'coded', 'coded')
                idxs = []
                for a, b, _ in A.indices(sd['sizes']):
                    idx = [0, 0, 0]
                    idx[dirs[0]], idx[dirs[1]], idx[d_fix] = a, b, j
                    idxs.append(tuple(idx))
                sd['points'] = [_upt(desc, i) for i in idxs]
                sd['weight_values'] = [(_hpt(desc, i)[-1] if desc['rational'] else 1.0) for i in idxs]
                mine.append(S.build(sd))
            fd = dict(f0, direction=dname, source='built')
            ok2, res = _attempt(ctx, 'C13.construct_volume.result', lambda: construct.construct_volume(
                dname, *mine, degree=desc['degrees'][d_fix], knotvector=list(desc['kvs'][d_fix])), rc2, fd)
            if ok2:
                _same_shape(ctx, 'C13.construct_volume', res, model, rc2, fd)

    if want('extract_isosurface'):
        rc = dict(case, only='extract_isosurface')
        ok, faces = _attempt(ctx, 'C13.extract_isosurface.result', lambda: construct.extract_isosurface(S.build(desc)), rc, f0)
        if not ok:
            return
        if not ctx.check('C13.extract_isosurface.count', len(faces) == 6, rc, f0, 6, len(faces)):
            return
        # the six boundary faces of the exact model, each as point table over the parameter grid of its two directions
        psets = _params(model)
        tables = {}
        for key, (dirs, d_fix, dname) in PLANES.items():
            for end in (0, 1):
                pts = []
                for a, b in itertools.product(psets[dirs[0]], psets[dirs[1]]):
                    prm = [None, None, None]
                    prm[dirs[0]], prm[dirs[1]], prm[d_fix] = a, b, doms[d_fix][end]
                    pts.append(R.eval_point(model, prm))
                tables[(dname, end)] = (dirs, pts)
        matched = {}
        for i, face in enumerate(faces):
            fd = R.def_from_obj(face)
            hit = None
            for (dname, end), (dirs, pts) in tables.items():
                if not (_consistent(fd) and len(fd['degrees']) == 2
                        and list(fd['degrees']) == [desc['degrees'][d] for d in dirs]
                        and list(fd['sizes']) == [sizes[d] for d in dirs]):
                    continue
                if [list(k) for k in fd['kvs']] != [list(model['kvs'][d]) for d in dirs]:
                    continue
                gv = [R.eval_point(fd, (a, b)) for a, b in itertools.product(psets[dirs[0]], psets[dirs[1]])]
                if all(abs(float(x - y)) <= TOL * 100.0 for p, q in zip(gv, pts) for x, y in zip(p, q)):
                    hit = (dname, end)
                    break
            ctx.check('C13.extract_isosurface.face_on_boundary', hit is not None, rc, dict(f0, face=i),
                      'face equals one boundary face of the volume', None)
            if hit:
                matched[hit] = i
        ctx.check('C13.extract_isosurface.covers_boundary', len(matched) == 6, rc, f0, sorted(tables), sorted(matched))
        ctx.outcome(tuple(sorted((k, v) for k, v in matched.items())))


# ----------------------------------------------------------------------------------------
# sweeping
# ----------------------------------------------------------------------------------------

def _sweep(case, ctx):
    from geomdl import sweeping
    desc = case['shape']
    pd = desc['pdim']
    model = S.model_of(desc)
    psets = _params(model)
    plist = list(itertools.product(*psets))
    base_pts = [R.eval_point(model, prm) for prm in plist]
    kindname = 'curve' if pd == 1 else 'surface'
    for vec in case.get('vecs', VECS):
        rc = dict(case, vecs=[vec])
        f = _feat(desc, kind='sweep', vec=vec, input=kindname)
        obl = 'C13.sweep_vector.' + kindname
        src = S.build(desc)
        snap = S.snapshot(src)
        ok, res = _attempt(ctx, obl + '.result', lambda: sweeping.sweep_vector(src, list(vec)), rc, f)
        if not ok:
            continue
        ctx.check(obl + '.input_unchanged', S.snapshot(src) == snap, rc, f, 'input unchanged', None)
        try:
            d = R.def_from_obj(res)
            good = _consistent(d) and len(d['degrees']) == pd + 1 and d['rational'] == desc['rational']
        except Exception:
            good = False
        if not ctx.check(obl + '.kind', good, rc, f, '%d-parametric shape of the same rationality' % (pd + 1), repr(res)):
            continue
        moved = [tuple(c + F(x) for c, x in zip(p, vec)) for p in base_pts]
        doms = R.corner_params(d)
        hit = None
        for dsw in range(pd + 1):
            rest = [a for a in range(pd + 1) if a != dsw]
            if [d['kvs'][a] for a in rest] != list(model['kvs']) or [d['degrees'][a] for a in rest] != list(model['degrees']):
                continue
            sect = []
            for end in (0, 1):
                pts = []
                for prm in plist:
                    full = [None] * (pd + 1)
                    full[dsw] = doms[dsw][end]
                    for a, x in zip(rest, prm):
                        full[a] = x
                    pts.append(R.eval_point(d, full))
                sect.append(pts)
            eq = lambda A_, B_: all(abs(float(x - y)) <= TOL * 100.0 for p, q in zip(A_, B_) for x, y in zip(p, q))
            if eq(sect[0], base_pts) and eq(sect[1], moved):
                hit = ('uvw'[dsw], 'input_first')
            elif eq(sect[1], base_pts) and eq(sect[0], moved):
                hit = ('uvw'[dsw], 'input_last')
            if hit:
                break
        ctx.check(obl + '.boundary_sections', hit is not None, rc, f,
                  'two opposite boundary sections equal the input and the input translated by vec', None)
        ctx.outcome(('sweep', pd, hit))

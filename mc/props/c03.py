"""C03 - basis functions and knot-span search satisfy their defining identities (explorer E1)."""
from fractions import Fraction as F

from .. import alphabet as A
from .. import refmodel as R

PROPERTY = "C03"
RULE = ("E1: every knot vector of K(p,B,G) (all multiplicity patterns 1..p of <=B interior breakpoints on a dyadic "
        "grid), the unclamped alphabet, every parameter (all knots, both ends, p+1 dyadic points per span, two "
        "non-dyadic witnesses), derivative orders 0..p; every (degree,count) pair for generate; non-trivial = "
        "knot vector with at least one interior knot or unclamped")
ASSUMPTIONS = [
    "helper contract of A2.3: derivative order <= degree (orders above the degree are checked through the shape API in C02)",
    "A2.4/A2.5 single-function variants are right-continuous: compared at u < domain end, plus the documented end special cases of basis_function_one",
    "unclamped alphabet has simple end-of-domain knots",
    "knot values are separated by >= 1/64, far above the library tolerances (1e-5 end test, 1e-7 multiplicity)",
]
TOL = 1e-9


def bounds(tier):
    return dict(quick=dict(degrees='1..5', K='K(1,3,8) K(2,3,8) K(3,3,4) K(4,2,4) K(5,2,4)', generate='p<=7, n<=p+8; p<=3: n<=p+130'),
                thorough=dict(degrees='1..7', K='K(p,3,8) for p<=4, K(5,2,8), K(6,3,4), K(7,2,4)',
                              generate='p<=7, n<=p+130'))[tier]


def gen_cases(tier, seed):
    cases = []
    if tier == 'quick':
        plan = [(1, 3, 8), (2, 3, 8), (3, 3, 4), (4, 2, 4), (5, 2, 4)]
    else:
        plan = [(1, 3, 8), (2, 3, 8), (3, 3, 8), (4, 3, 8), (5, 2, 8), (6, 3, 4), (7, 2, 4)]
    for p, B, G in plan:
        mm = p if p <= 4 else None
        for kv in A.clamped_kvs(p, B, G, mm):
            cases.append(dict(kind='kv', p=p, kv=kv, unclamped=False))
    for p in range(1, 5 if tier == 'quick' else 8):
        for n in (p + 1, p + 2, p + 4):
            for kv in A.unclamped_kvs(p, n):
                cases.append(dict(kind='kv', p=p, kv=kv, unclamped=True))
    for p in range(1, 8):
        # every count up to p+8, and every count up to p+130 for the degrees most used (evenly spaced knots are computed in
        # floating point: the end knots must still be exact for every count)
        top = p + 130 if (p <= 3 or tier == 'thorough') else p + 8
        for n in range(p + 1, top + 1):
            for clamped in (True, False):
                cases.append(dict(kind='generate', p=p, n=n, clamped=clamped))
    for p, B, G in [(2, 2, 4), (3, 2, 4)]:
        for kv in A.clamped_kvs(p, B, G):
            cases.append(dict(kind='normalize', p=p, kv=kv))
    # ---- data variety (DESIGN §6, wave 5): decimal / 1/7 knots, ranges far from [0,1] and very short ranges; the same vectors
    # given as tuples or with integer knots given as ints; spans as short as one ulp, 1e-9, 1e-8
    for p in (1, 2, 3):
        for kv, _ in A.odd_kvs(p, 2):
            cases.append(dict(kind='kv', p=p, kv=kv, unclamped=False, variety='odd'))
            cases.append(dict(kind='normalize', p=p, kv=kv, variety='odd', as_type='tuple'))
        for kv in A.clamped_kvs(p, 2, 4):
            cases.append(dict(kind='kv', p=p, kv=kv, unclamped=False, variety='types', as_type='tuple'))
        for n in (p + 1, p + 3):
            for kv in A.unclamped_kvs(p, n):
                cases.append(dict(kind='kv', p=p, kv=kv, unclamped=True, variety='types', as_type='int'))
                cases.append(dict(kind='kv', p=p, kv=kv, unclamped=True, variety='types', as_type='tuple'))
        one, zero = [1.0] * (p + 1), [0.0] * (p + 1)
        for interior in ([0.3, 0.1 + 0.2], [1e-9, 0.5], [0.5, 0.5 + 1e-8], [0.25, 0.25 + 2.0 ** -40, 0.75]):
            cases.append(dict(kind='kv', p=p, kv=zero + interior + one, unclamped=False, variety='tiny_span', tiny=True))
    return cases


def case_weight(c):
    return len(c.get('kv', ())) * (c.get('p', 1) + 1) ** 2


def run_case(case, ctx):
    k = case['kind']
    if k == 'kv':
        _kv_case(case, ctx)
    elif k == 'generate':
        _generate_case(case, ctx)
    elif k == 'normalize':
        _normalize_case(case, ctx)


def _kv_case(case, ctx):
    from geomdl import helpers
    p, kv = case['p'], case['kv']
    n = len(kv) - p - 1
    U = tuple(F(x) for x in kv)
    lo, hi = U[p], U[n]
    interior = n > p + 1
    ctx.state(dict(p=p, kv=kv, t=case.get('as_type')), nontrivial=interior or case['unclamped'])
    tiny = bool(case.get('tiny'))
    if case.get('as_type') == 'tuple':
        kv = tuple(kv)
    elif case.get('as_type') == 'int':
        kv = [int(k) if float(k).is_integer() else k for k in kv]
    from geomdl import knotvector
    ctx.check('C03.check.accepts', knotvector.check(p, kv, n) is True, case, dict(p=p, variety=case.get('variety'), as_type=case.get('as_type')),
              True, False)
    params = A.params_for(p, [float(k) for k in kv])
    if tiny:
        params = sorted(set(params + [float(k) for k in kv]))
    if 'params' in case:
        params = case['params']
    only = case.get('only')  # replay of a single parameter
    spans_model = []
    for u in params:
        uf = F(u)
        feats = dict(p=p, unclamped=case['unclamped'], at_end=(uf == hi), at_knot=(uf in U), variety=case.get('variety'))
        rc = dict(case, params=[u])
        s = R.find_span(p, U, uf)
        spans_model.append(s)
        ctx.check('C03.span.linear', helpers.find_span_linear(p, kv, n, u) == s, rc, feats, s,
                  helpers.find_span_linear(p, kv, n, u))
        ctx.check('C03.span.binary', helpers.find_span_binsearch(p, kv, n, u) == s, rc, feats, s,
                  helpers.find_span_binsearch(p, kv, n, u))
        if not tiny:      # knots closer than the library's multiplicity tolerance: the count is the tolerance's business (§5)
            ctx.check('C03.multiplicity', helpers.find_multiplicity(u, kv) == R.multiplicity(U, uf), rc, feats,
                      R.multiplicity(U, uf), helpers.find_multiplicity(u, kv))
        # values
        _, rows = R.basis_values(p, U, uf, p)
        N = helpers.basis_function(p, kv, s, u)
        ctx.close('C03.basis.value', N, rows[0], TOL, 1.0, rc, feats)
        ctx.check('C03.basis.nonneg', all(x >= -1e-15 for x in N), rc, feats, '>=0', N)
        ctx.check('C03.basis.sum1', abs(sum(N) - 1.0) <= 1e-12, rc, feats, 1.0, sum(N))
        ctx.outcome((p, s - p, tuple(round(x, 9) for x in N)))
        # single-function variant, all indices
        at_end = (uf == hi)
        one = [helpers.basis_function_one(p, kv, i, u) for i in range(n)]
        if at_end and not case['unclamped']:
            exp_one = [R.N_rec(i, p, U, uf, at_end=True) for i in range(n)]
        else:
            exp_one = [R.N_rec(i, p, U, uf) for i in range(n)]
        if not (at_end and case['unclamped']):
            ctx.close('C03.basis.one', one, exp_one, TOL, 1.0, rc, feats)
            ctx.close('C03.basis.one_vs_span', [one[s - p + j] for j in range(p + 1)], N, 1e-12, 1.0, rc, feats)
        # all-degrees table
        allN = helpers.basis_function_all(p, kv, s, u)
        ok = True
        exp_all = []
        for d in range(p + 1):
            polys = R.basis_polys(d, U, s)
            col = [R.poly_eval(c, uf) for c in polys]
            exp_all.append(col)
            got = [allN[j][d] for j in range(d + 1)]
            ctx.close('C03.basis.all', got, col, TOL, 1.0, rc, dict(feats, d=d))
        ctx.close('C03.basis.all_vs_span', [allN[j][p] for j in range(p + 1)], N, 1e-12, 1.0, rc, feats)
        # derivatives (orders 0..p)
        hmin = min(float(U[i + 1] - U[i]) for i in range(p, n) if U[i] < U[i + 1])
        for order in range(0, 1 if tiny else p + 1):
            ders = helpers.basis_function_ders(p, kv, s, u, order)
            fo = dict(feats, order=order)
            ctx.check('C03.ders.shape', len(ders) == order + 1 and all(len(r) == p + 1 for r in ders), rc, fo,
                      (order + 1, p + 1), (len(ders), [len(r) for r in ders]))
            for kk in range(order + 1):
                sc = (p / hmin) ** kk
                ctx.close('C03.ders.value', ders[kk], rows[kk], TOL, sc, rc, dict(fo, k=kk))
                if kk >= 1:
                    ctx.check('C03.ders.sum0', abs(sum(ders[kk])) <= 1e-9 * sc, rc, dict(fo, k=kk), 0.0, sum(ders[kk]))
        if not at_end and not tiny:
            for i in range(n):
                d1 = helpers.basis_function_ders_one(p, kv, i, u, p)
                if s - p <= i <= s:
                    exp = [rows[kk][i - (s - p)] for kk in range(p + 1)]
                else:
                    exp = [F(0)] * (p + 1)
                for kk in range(p + 1):
                    ctx.close('C03.ders.one', d1[kk], exp[kk], TOL, (p / hmin) ** kk, rc,
                              dict(feats, i=i, k=kk))
    # list variants
    sp_lin = helpers.find_spans(p, kv, n, params)
    sp_bin = helpers.find_spans(p, kv, n, params, helpers.find_span_binsearch)
    ctx.check('C03.span.find_spans', list(sp_lin) == spans_model and list(sp_bin) == spans_model, case, dict(p=p),
              spans_model, [sp_lin, sp_bin])
    bl = helpers.basis_functions(p, kv, spans_model, params)
    dl = helpers.basis_functions_ders(p, kv, spans_model, params, 0 if tiny else p)
    ok = len(bl) == len(params) and len(dl) == len(params)
    if ok:
        for idx, u in enumerate(params):
            if list(bl[idx]) != list(helpers.basis_function(p, kv, spans_model[idx], u)):
                ok = False
            if [list(r) for r in dl[idx]] != [list(r) for r in helpers.basis_function_ders(p, kv, spans_model[idx], u, 0 if tiny else p)]:
                ok = False
    ctx.check('C03.basis.list_variants', ok, case, dict(p=p), 'list variants equal the single-parameter calls', None)


def _generate_case(case, ctx):
    from geomdl import knotvector
    p, n, clamped = case['p'], case['n'], case['clamped']
    ctx.state(case, nontrivial=n > p + 1)
    for second in (False, True):
        kv = knotvector.generate(p, n, clamped=clamped)
        _judge_generated(case, ctx, kv, dict(p=p, n=n, clamped=clamped, second_call=second))
        # the caller owns the returned list: scribbling on it must not influence the next call
        kv.append(9.0)
        kv[0] = -1.0
        del kv[1]


def _judge_generated(case, ctx, kv, feats):
    from geomdl import knotvector
    p, n, clamped = case['p'], case['n'], case['clamped']
    ctx.check('C03.generate.length', len(kv) == n + p + 1, case, feats, n + p + 1, len(kv))
    ctx.check('C03.generate.valid', knotvector.check(p, kv, n) is True, case, feats, True, None)
    if clamped:
        exp = [F(0)] * (p + 1) + [F(i, n - p) for i in range(1, n - p)] + [F(1)] * (p + 1)
    else:
        exp = [F(i, n + p) for i in range(n + p + 1)]
    ctx.close('C03.generate.values', kv, exp, 1e-15, 1.0, case, feats)
    if len(kv) == len(exp):
        ctx.check('C03.generate.exact_ends', kv[0] == 0.0 and kv[-1] == 1.0 and
                  (not clamped or (all(x == 0.0 for x in kv[:p + 1]) and all(x == 1.0 for x in kv[-(p + 1):]))), case, feats,
                  'end knots exactly 0.0 and 1.0', [kv[:p + 2], kv[-(p + 2):]])
    if len(kv) == len(exp):
        U = [F(x) for x in kv]
        mult0 = sum(1 for x in U if x == U[0])
        mult1 = sum(1 for x in U if x == U[-1])
        want = p + 1 if clamped else 1
        ctx.check('C03.generate.end_multiplicity', mult0 == want and mult1 == want, case, feats, want, (mult0, mult1))
        ctx.check('C03.generate.sorted', all(a <= b for a, b in zip(kv, kv[1:])), case, feats, 'non-decreasing', kv)
    # rejection of wrong length / decreasing vectors
    good = [float(x) for x in exp]
    ctx.check('C03.check.accepts', knotvector.check(p, good, n) is True, case, feats, True, False)
    for bad in (good[:-1], good + [good[-1]]):
        ctx.check('C03.check.rejects_length', knotvector.check(p, bad, n) is False, case, feats, False, True)
    for i in range(len(good) - 1):
        if good[i] < good[i + 1]:
            bad = list(good)
            bad[i], bad[i + 1] = bad[i + 1], bad[i]
            ctx.check('C03.check.rejects_descent', knotvector.check(p, bad, n) is False, case, dict(feats, swap=i),
                      False, True)


def _normalize_case(case, ctx):
    from geomdl import knotvector
    kv = case['kv']
    ctx.state(case, nontrivial=True)
    if case.get('variety') == 'odd':
        # any range given as list or tuple: the result is the affine image on [0,1], ends exact
        lo, hi = F(kv[0]), F(kv[-1])
        exp = [(F(k) - lo) / (hi - lo) for k in kv]
        for raw in (list(kv), tuple(kv)):
            out = knotvector.normalize(raw)
            feats = dict(variety='odd', as_type=type(raw).__name__)
            ctx.close('C03.normalize.values', out, exp, 1e-15, 1.0, case, feats)
            ctx.check('C03.normalize.ends', len(out) == len(kv) and out[0] == 0.0 and out[-1] == 1.0, case, feats, (0.0, 1.0),
                      (out[0], out[-1]) if len(out) else None)
            ctx.check('C03.normalize.input_unchanged', list(raw) == list(kv), case, feats)
        return
    for a, s in A.AFFINE:
        raw = A.affine_kv(kv, a, s)
        first = knotvector.normalize(raw)
        first.append(5.0)            # the caller owns the result
        out = knotvector.normalize(raw)
        feats = dict(a=a, s=s)
        ctx.check('C03.normalize.input_unchanged', raw == A.affine_kv(kv, a, s), case, feats)
        ctx.close('C03.normalize.values', out, kv, 1e-15, 1.0, case, feats)
        if len(out) == len(kv):
            ctx.check('C03.normalize.ends', out[0] == 0.0 and out[-1] == 1.0, case, feats, (0.0, 1.0), (out[0], out[-1]))
            order_ok = all((x < y) == (a_ < b_) and (x == y) == (a_ == b_)
                           for x, y, a_, b_ in zip(out, out[1:], raw, raw[1:]))
            ctx.check('C03.normalize.order', order_ok, case, feats, 'order and ties preserved', out)

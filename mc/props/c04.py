"""C04 - knot insertion never changes the shape (explorer E1: inputs, and depth-bounded exhaustive insertion sequences)."""
import itertools
from fractions import Fraction as F

from .. import alphabet as A
from .. import core
from .. import refmodel as R
from .. import shapes as S
from .. import util_knots as K

PROPERTY = "C04"
VIA_HISTORY_EVERY = 9      # every k-th shape case is also run on an object that reached its definition through edits
EXPLORERS = ['E1']
RULE = ("E1: clamped curves (p<=3 over K(p,2,4); thorough p<=5 over K(p,3,8)/K(p,3,4)/K(p,2,4)), surfaces (degrees "
        "{1,2,3}^2 over per-direction representatives, pairwise different sizes), volumes (degrees {1,2}^3, thorough "
        "{1,2,3}^3), rational (coded weights) and non-rational, plus non-normalised affine knot ranges with "
        "normalize_kv=False; x every non-empty subset of directions x insertion parameter in {every interior knot, every "
        "span midpoint, 1/3} x every admissible count r=1..p-s (single direction: full product; several directions: "
        "product of a 3-element per-direction menu {knot to full multiplicity, midpoint once, 1/3 p times}, thorough "
        "surfaces: full product) x entry points operations.insert_knot, the object wrapper insert_knot, wrapper after a "
        "prior evaluate(), helpers.knot_insertion/knot_insertion_kv on point rows and rows-of-points; the inadmissible "
        "count r=p-s+1 at every such parameter and at both domain ends for rejection; all insertion sequences of length "
        "<=2 (thorough <=3; third volume seed <=2) over {(dir,u in {1/4,1/2,3/4,1/3}, r in {1,2})} from 2-3 seed shapes per class, judged after "
        "every step against the seed; non-trivial = every case (an insertion creates an interior knot)")
ASSUMPTIONS = [
    "on one knot span of the refined vector both definitions are polynomial (rational: quotients) of degree p per direction, so "
    "agreement at p+1 (2p+1) interior parameters per span and direction on the tensor grid decides equality of the shapes",
    "insertion is linear in the homogeneous net for fixed knots: an injective index-coded net (+ coded weights, thorough: a seeded "
    "net with seeded weights) exposes any index, coefficient or ordering error",
    "tolerance 1e-9 relative to max(1,|P|) between two exact evaluations (library rounding observed <= 1e-14)",
    "knot values are separated by >= 1/24, far above the library's multiplicity tolerance",
]
TOL = 1e-9
SEQ_US = [0.25, 0.5, 0.75, 1.0 / 3.0]
SEQ_RS = [1, 2]


def bounds(tier):
    return dict(
        quick=dict(curves='p<=3 over K(p,2,4)', surfaces='degrees {1,2,3}^2, 3 knot structures per direction',
                   volumes='degrees {1,2}^3, 3 knot structures per direction, sizes pairwise different, sum<=10',
                   nonnormalised='2 affine ranges, curves p<=3 and 3 surfaces', sequences='depth 2, 2 seeds per class'),
        thorough=dict(curves='p<=3 over K(p,3,8) (p=3: K(3,3,4)+K(3,2,8)), p=4,5 over K(p,2,4)',
                      surfaces="degrees {1,2,3}^2 over K'(p) level 1, full product of per-direction menus",
                      volumes='degrees {1,2,3}^3 (sum<=7), 3 knot structures per direction',
                      nonnormalised='4 affine ranges', sequences='depth 3, 3 seeds per class (third volume seed: depth 2)'))[tier]


# ----------------------------------------------------------------------------------------
# case generation
# ----------------------------------------------------------------------------------------

def _seed_shapes(tier):
    q = tier == 'quick'
    kv = A.clamped_kv
    curves = [A.shape_desc([kv(2, [])], [2], False, 3, 'coded'),
              A.shape_desc([kv(3, [(0.5, 1)])], [3], True, 3, 'coded', 'coded'),
              A.shape_desc([kv(3, [(0.25, 1), (0.5, 2)])], [3], True, 2, 'seeded', 'seeded')]
    surfs = [A.shape_desc([kv(2, []), kv(3, [(0.5, 1)])], [2, 3], True, 3, 'coded', 'coded'),
             A.shape_desc([kv(3, [(0.25, 1), (0.5, 2)]), kv(2, [(0.5, 1)])], [3, 2], False, 3, 'coded'),
             A.shape_desc([kv(2, [(0.25, 1)]), kv(1, [(0.5, 1)])], [2, 1], True, 3, 'seeded', 'seeded')]
    vols = [A.shape_desc([kv(2, []), kv(2, [(0.5, 1)]), kv(1, [])], [2, 2, 1], False, 3, 'coded'),
            A.shape_desc([kv(1, [(0.5, 1)]), kv(2, [(0.5, 1)]), kv(2, [(0.25, 1), (0.5, 1)])], [1, 2, 2], True, 3, 'coded', 'coded'),
            A.shape_desc([kv(2, [(0.5, 1)]), kv(1, []), kv(2, [])], [2, 1, 2], True, 3, 'seeded', 'seeded')]
    n = 2 if q else 3
    for grp in (surfs, vols):
        for d in grp:
            assert len(set(d['sizes'])) == len(d['sizes'])
    return curves[:n], surfs[:n], vols[:n]


def _seq_menu(pdim):
    return [[a, u, r] for a in range(pdim) for u in SEQ_US for r in SEQ_RS]


def _admissible(desc, ops):
    """pure simulation on the descriptor's (normalised) knot vectors: is every op of the sequence admissible when applied"""
    kvs = [list(k) for k in desc['kvs']]
    for a, u, r in ops:
        s = K.fmult(kvs[a], u)
        if r > desc['degrees'][a] - s:
            return False
        kvs[a] = sorted(kvs[a] + [u] * r)
    return True


def gen_cases(tier, seed):
    q = tier == 'quick'
    cases = []
    # E1, curves first (simplest)
    for d in K.curve_shapes(tier):
        cases.append(dict(kind='e1', shape=d, dirs=[0]))
        cases.append(dict(kind='helper', shape=d))
    for d in K.nonnormalised_shapes(tier):
        for dirs in K.nonempty_subsets(d['pdim']):
            cases.append(dict(kind='e1', shape=d, dirs=dirs))
    for d in K.surface_shapes(tier):
        for dirs in K.nonempty_subsets(2):
            cases.append(dict(kind='e1', shape=d, dirs=dirs))
        if d['degrees'][0] + d['degrees'][1] <= (4 if q else 6):
            cases.append(dict(kind='helper', shape=d))
    for d in K.volume_shapes(tier):
        for dirs in K.nonempty_subsets(3):
            cases.append(dict(kind='e1', shape=d, dirs=dirs))
    # parameters closer to an existing knot than the library's own multiplicity tolerance, and generated (evenly spaced) knot
    # vectors with the parameter written as a decimal
    near = []
    for deg in (1, 2, 3):
        near += [d for d in K.curve_shapes(tier) if d['degrees'] == [deg] and len(d['kvs'][0]) > 2 * (deg + 1)][:5]
    near += [d for d in K.surface_shapes(tier) if any(len(kv) > 2 * (p + 1) for kv, p in zip(d['kvs'], d['degrees']))][:6]
    for d in near:
        for a in range(d['pdim']):
            if len(d['kvs'][a]) > 2 * (d['degrees'][a] + 1):
                cases.append(dict(kind='near_knot', shape=d, dir=a))
    for d in (K.curve_shapes(tier)[:4] + K.surface_shapes(tier)[:2]):
        for a in range(d['pdim']):
            for seg in (3, 5, 7, 10):
                cases.append(dict(kind='generated', shape=d, dir=a, segments=seg))
    # insertion into a deep copy: the copy's views grow, the original's views stay (rational shapes have view caches)
    for d in (K.curve_shapes(tier)[:8] + K.surface_shapes(tier)[:8] + K.volume_shapes(tier)[:4]):
        if d['rational']:
            cases.append(dict(kind='copy_views', shape=d))
    # sequences: every node of the insertion tree up to the depth bound is one judged step
    for grp in _seed_shapes(tier):
        for k, d in enumerate(grp):
            depth = 2 if (q or (d['pdim'] == 3 and k == 2)) else 3      # third volume seed: depth 2 (cost)
            menu = _seq_menu(d['pdim'])
            split = 2 if (d['pdim'] == 3 and depth >= 3) else 1
            for l in range(1, split + 1):
                for pre in itertools.product(menu, repeat=l):
                    pre = [list(o) for o in pre]
                    if not _admissible(d, pre):
                        continue
                    cases.append(dict(kind='tree', shape=d, prefix=pre, extend=(depth - l) if l == split else 0,
                                      entry='alternate'))
    return cases


def case_weight(c):
    d = c['shape']
    w = K.shape_weight(d)
    if c['kind'] == 'tree':
        return w * (len(_seq_menu(d['pdim'])) ** c.get('extend', 0)) * 3
    if c['kind'] == 'seq':
        return w
    if c['kind'] == 'helper':
        return w * 2
    return w * (4 if len(c.get('dirs', [0])) == 1 else 6)


# ----------------------------------------------------------------------------------------
# applying insertions
# ----------------------------------------------------------------------------------------

def _norm_op(op, pdim):
    """op: [dir, u, r] or {'params': [...], 'nums': [...]} -> (params list with None, nums list)"""
    if isinstance(op, dict):
        return list(op['params']), list(op['nums'])
    a, u, r = op
    params, nums = [None] * pdim, [0] * pdim
    params[a], nums[a] = u, r
    return params, nums


def _apply(obj, params, nums, entry):
    from geomdl import operations
    pd = obj.pdimension
    if entry == 'operations':
        return operations.insert_knot(obj, list(params), list(nums))
    # object wrapper
    # (a count of 1 is the documented default of the wrappers: it is left out, as a caller would)
    if pd == 1:
        return obj.insert_knot(params[0]) if nums[0] == 1 else obj.insert_knot(params[0], num=nums[0])
    kw = {}
    for a in range(pd):
        if params[a] is not None:
            kw[K.DIRN[a]] = params[a]
            if nums[a] != 1:
                kw['num_' + K.DIRN[a]] = nums[a]
    return obj.insert_knot(**kw)


def _accepted(ctx, tag, obj, params, nums, entry, rc, feats):
    """an admissible insertion must be carried out, not raise"""
    try:
        _apply(obj, params, nums, entry)
    except Exception as e:
        return ctx.check('C04.%s.accepted' % tag, False, rc, feats, 'admissible insertion is carried out', repr(e)[:300])
    return ctx.check('C04.%s.accepted' % tag, True, rc, feats)


def _op_features(desc, kvs_before, params, nums, entry, extra=None):
    dirs = [a for a in range(len(params)) if params[a] is not None and nums[a] > 0]
    mults = [K.fmult(kvs_before[a], params[a]) for a in dirs]
    degs = [desc['degrees'][a] for a in dirs]
    f = dict(pdim=desc['pdim'], rational=desc['rational'], degrees=list(desc['degrees']), direction=K.dirs_name(dirs),
             ndirs=len(dirs), count=max([nums[a] for a in dirs] or [0]), counts=[nums[a] for a in dirs], mults=mults,
             degree=max(degs or [0]), at_existing_knot=any(m > 0 for m in mults), entry=entry,
             normalize_kv=desc.get('normalize_kv', True), net=desc['net'].split(':')[0])
    if extra:
        f.update(extra)
    return f


def _judge_step(ctx, obj, snap_before, d_orig, scale, desc, params, nums, rc, feats, tag='insert'):
    """structure against the definition before the step, geometry against the ORIGINAL definition"""
    pd = desc['pdim']
    snap = S.snapshot(obj)
    ok_all = True
    for a in range(pd):
        r = nums[a] if params[a] is not None else 0
        fa = dict(feats, dir=K.DIRN[a], selected=r > 0)
        exp_kv = sorted(snap_before['kvs'][a] + [params[a]] * r) if r else snap_before['kvs'][a]
        ok_all &= ctx.check('C04.%s.knotvector' % tag, snap['kvs'][a] == exp_kv, rc, fa, exp_kv, snap['kvs'][a],
                            'knot vector = sorted original plus exactly r copies (exact floats)')
        ok_all &= ctx.check('C04.%s.size' % tag, snap['sizes'][a] == snap_before['sizes'][a] + r, rc, fa,
                            snap_before['sizes'][a] + r, snap['sizes'][a])
    ok_all &= ctx.check('C04.%s.degrees' % tag, snap['degrees'] == snap_before['degrees'] and snap['rational'] == snap_before['rational'],
                        rc, feats, snap_before['degrees'], snap['degrees'])
    ok_all &= ctx.check('C04.%s.net_length' % tag, len(snap['P']) == K.prod(snap['sizes']) and
                        all(len(p) == len(snap_before['P'][0]) for p in snap['P']), rc, feats,
                        K.prod(snap['sizes']), len(snap['P']))
    if desc['rational']:
        ok_all &= ctx.check('C04.%s.weights_positive' % tag, all(p[-1] > 0 for p in snap['P']), rc, feats, '> 0',
                            min(p[-1] for p in snap['P']))
    # geometry: only meaningful if the definition is well formed
    d_new = R.def_from_obj(obj)
    wellformed = (len(d_new['P']) == K.prod(d_new['sizes']) and
                  all(len(U) == n + p + 1 and all(x <= y for x, y in zip(U, U[1:]))
                      for U, n, p in zip(d_new['kvs'], d_new['sizes'], d_new['degrees'])))
    if not wellformed:
        ctx.check('C04.%s.geometry' % tag, False, rc, feats, 'a well formed definition', dict(sizes=d_new['sizes']),
                  'definition read back is not well formed (see structural obligations)')
        return False
    ps = K.param_sets(d_new)
    try:
        ok_all &= K.same_shape(ctx, 'C04.%s.geometry' % tag, d_new, ps, d_orig, ps, scale, rc, feats, TOL)
    except ValueError:
        ctx.check('C04.%s.geometry' % tag, False, rc, feats, 'same parametric domain', None, 'parameter outside a domain')
        return False
    ctx.state(dict(kvs=snap['kvs'], P=[[round(c, 9) for c in p] for p in snap['P']]), nontrivial=True)
    ctx.outcome((tuple(tuple(k) for k in snap['kvs'])))
    return ok_all


# ----------------------------------------------------------------------------------------
# E1
# ----------------------------------------------------------------------------------------

def _reduced_menu(p, kv):
    """<=3 (u, r): first insertable interior knot to full multiplicity, first midpoint once, 1/3 p times"""
    menu = K.insertion_params(p, kv)
    out = []
    knots = [(u, s) for u, s in menu if 0 < s < p]
    if knots:
        out.append((knots[0][0], p - knots[0][1]))
    mids = [(u, s) for u, s in menu if s == 0]
    out.append((mids[0][0], 1))
    if mids[-1][0] != mids[0][0]:
        out.append((mids[-1][0], p))
    return out


def _e1_ops(desc, kvs, dirs, tier):
    """list of (params, nums)"""
    pd = desc['pdim']
    per_dir = []
    full = len(dirs) == 1 or (tier == 'thorough' and pd == 2)
    for a in dirs:
        p = desc['degrees'][a]
        if full:
            per_dir.append([(u, r) for u, s in K.insertion_params(p, kvs[a]) for r in range(1, p - s + 1)])
        else:
            per_dir.append(_reduced_menu(p, kvs[a]))
    ops = []
    for combo in itertools.product(*per_dir):
        params, nums = [None] * pd, [0] * pd
        for a, (u, r) in zip(dirs, combo):
            params[a], nums[a] = u, r
        ops.append((params, nums))
    return ops


def _setup(desc, ctx):
    obj = S.build(desc, ctx.seed)
    d_orig = R.def_from_obj(obj)
    return obj, d_orig, K.geo_scale(d_orig)


def _e1_case(case, ctx):
    from geomdl.exceptions import GeomdlException
    desc, dirs = case['shape'], case['dirs']
    pd = desc['pdim']
    obj0, d_orig, scale = _setup(desc, ctx)
    kvs0 = K.obj_kvs(obj0)
    ctx.state(dict(d=desc, s=ctx.seed if 'seeded' in (desc['net'], desc.get('weights')) else 0), nontrivial=True)
    ops = _e1_ops(desc, kvs0, dirs, ctx.tier)
    entries = ['operations', 'wrapper']
    first = True
    for params, nums in ops:
        for entry in entries:
            obj = S.build(desc, ctx.seed)
            before = S.snapshot(obj)
            feats = _op_features(desc, kvs0, params, nums, entry)
            rc = dict(kind='seq', shape=desc, ops=[dict(params=params, nums=nums)], entry=entry)
            if not _accepted(ctx, 'insert', obj, params, nums, entry, rc, feats):
                continue
            _judge_step(ctx, obj, before, d_orig, scale, desc, params, nums, rc, feats)
        if first and len(dirs) == 1:
            first = False
            _evaluated_variant(ctx, desc, d_orig, scale, kvs0, params, nums)
    # rejection: single direction only (the property's statement)
    if len(dirs) == 1:
        a = dirs[0]
        p = desc['degrees'][a]
        n = len(kvs0[a]) - p - 1
        cand = K.insertion_params(p, kvs0[a]) + [(kvs0[a][p], K.fmult(kvs0[a], kvs0[a][p])), (kvs0[a][n], K.fmult(kvs0[a], kvs0[a][n]))]
        for u, s in cand:
            for r in sorted({max(1, p - s + 1), max(1, p - s + 2)}):
                params, nums = [None] * pd, [0] * pd
                params[a], nums[a] = u, r
                _reject(ctx, desc, kvs0, params, nums)


def _reject(ctx, desc, kvs0, params, nums):
    from geomdl.exceptions import GeomdlException
    for entry in ('operations', 'wrapper'):
        obj = S.build(desc, ctx.seed)
        before = S.snapshot(obj)
        feats = _op_features(desc, kvs0, params, nums, entry, dict(at_domain_end=any(
            params[a] is not None and params[a] in (kvs0[a][0], kvs0[a][-1]) for a in range(len(params)))))
        rc = dict(kind='reject', shape=desc, ops=[dict(params=params, nums=nums)], entry=entry)
        if entry == 'operations':
            ctx.raises('C04.reject.operations.raises', lambda: _apply(obj, params, nums, entry), (GeomdlException,), rc, feats)
        else:
            try:
                ret = _apply(obj, params, nums, entry)
                ctx.check('C04.reject.wrapper.silent', ret is None, rc, feats, None, repr(ret))
            except Exception as e:
                ctx.check('C04.reject.wrapper.silent', False, rc, feats, 'silent no-op', repr(e))
        after = S.snapshot(obj)
        ctx.check('C04.reject.%s.unchanged' % entry, after == before, rc, feats, 'snapshot unchanged',
                  dict(kvs=after['kvs'], sizes=after['sizes']))


def _evaluated_variant(ctx, desc, d_orig, scale, kvs0, params, nums):
    """the object has been evaluated before the insertion through the wrapper: its evaluated points must still be the
    original shape's points afterwards"""
    pd = desc['pdim']
    obj = S.build(desc, ctx.seed)
    ns = [5, 4, 3][:pd]
    _set_sample(obj, ns)
    obj.evaluate()
    len(obj.evalpts)
    feats = _op_features(desc, kvs0, params, nums, 'wrapper_evaluated')
    rc = dict(kind='evaluated', shape=desc, ops=[dict(params=params, nums=nums)])
    try:
        _apply(obj, params, nums, 'wrapper')
    except Exception as e:
        ctx.check('C04.insert.evalpts_after', False, rc, feats, 'insertion carried out', repr(e)[:300])
        return
    _set_sample(obj, ns)
    ep = obj.evalpts
    doms = [R.domain(p, U) for p, U in zip(d_orig['degrees'], d_orig['kvs'])]
    grids = [[lo + (hi - lo) * F(i, n - 1) for i in range(n)] for (lo, hi), n in zip(doms, ns)]
    exp_pts = K.grid_eval(d_orig, grids)
    exp = exp_pts      # evaluated grids are u-major (v, then w fastest) = itertools.product order (established in C01)
    ctx.close('C04.insert.evalpts_after', [list(p) for p in ep], exp, TOL, scale, rc, feats)


def _set_sample(obj, ns):
    if obj.pdimension == 1:
        obj.sample_size = ns[0]
    elif obj.pdimension == 2:
        obj.sample_size_u, obj.sample_size_v = ns
    else:
        obj.sample_size_u, obj.sample_size_v, obj.sample_size_w = ns


# ----------------------------------------------------------------------------------------
# sequences
# ----------------------------------------------------------------------------------------

def _entry_at(entry, i):
    if entry == 'alternate':
        return 'operations' if i % 2 == 0 else 'wrapper'
    return entry


def _run_seq(ctx, desc, ops, entry, check_from=0, tag='insert'):
    """apply ops on a fresh object; judge steps check_from.. against the original"""
    pd = desc['pdim']
    obj, d_orig, scale = _setup(desc, ctx)
    for i, op in enumerate(ops):
        params, nums = _norm_op(op, pd)
        e = _entry_at(entry, i)
        before = S.snapshot(obj)
        feats = _op_features(desc, before['kvs'], params, nums, e, dict(step=i, history_length=i + 1))
        rc = dict(kind='seq', shape=desc, ops=[o for o in ops[:i + 1]], entry=entry, tag=tag)
        if i < check_from:
            try:
                _apply(obj, params, nums, e)
            except Exception:
                return obj      # reported by the node that judges this step
            continue
        if not _accepted(ctx, tag, obj, params, nums, e, rc, feats):
            return obj
        _judge_step(ctx, obj, before, d_orig, scale, desc, params, nums, rc, feats, tag=tag)
    return obj


def _tree_case(case, ctx):
    desc = case['shape']
    menu = _seq_menu(desc['pdim'])
    prefix = [list(o) for o in case['prefix']]
    ctx.state(dict(d=desc, s=ctx.seed), nontrivial=True)
    for k in range(0, case.get('extend', 0) + 1):
        for ext in itertools.product(menu, repeat=k):
            ops = prefix + [list(o) for o in ext]
            if not _admissible(desc, ops):
                continue
            ctx.extra['histories'] += 1
            ctx.extra['history_depth_%d' % len(ops)] += 1
            _run_seq(ctx, desc, ops, case.get('entry', 'alternate'), check_from=len(ops) - 1, tag='sequence')


# ----------------------------------------------------------------------------------------
# helper level
# ----------------------------------------------------------------------------------------

def _helper_case(case, ctx):
    from geomdl import helpers
    desc = case['shape']
    pd = desc['pdim']
    obj, d_orig, scale = _setup(desc, ctx)
    kvs0 = K.obj_kvs(obj)
    pts, w, pw = S.net_points(desc, ctx.seed)
    P = pw if desc['rational'] else pts
    only = case.get('only')
    if pd == 1:
        p, kv = desc['degrees'][0], kvs0[0]
        U = tuple(F(x) for x in kv)
        for u, s in K.insertion_params(p, kv):
            for r in range(1, p - s + 1):
                if only and only != [0, u, r]:
                    continue
                span = R.find_span(p, U, F(u))
                feats = _op_features(desc, kvs0, [u], [r], 'helper')
                rc = dict(case, only=[0, u, r])
                cp_in = [list(x) for x in P]
                try:
                    new_cp = helpers.knot_insertion(p, list(kv), cp_in, u, num=r)
                    new_kv = helpers.knot_insertion_kv(list(kv), u, span, r)
                except Exception as e:
                    ctx.check('C04.helper.accepted', False, rc, feats, 'admissible insertion is carried out', repr(e)[:300])
                    continue
                exp_kv = sorted(list(kv) + [u] * r)
                ctx.check('C04.helper.knotvector', list(new_kv) == exp_kv, rc, feats, exp_kv, list(new_kv))
                if not ctx.check('C04.helper.size', len(new_cp) == len(P) + r and all(len(c) == len(P[0]) for c in new_cp),
                                 rc, feats, len(P) + r, len(new_cp)):
                    continue
                if list(new_kv) != exp_kv:
                    continue
                d_new = R.shape_def([p], [new_kv], [len(new_cp)], new_cp, desc['rational'])
                ps = K.param_sets(d_new)
                K.same_shape(ctx, 'C04.helper.geometry', d_new, ps, d_orig, ps, scale, rc, feats, TOL)
        return
    # rows-of-points form (the path used for volumes), exercised directly on a surface net, both directions
    su, sv = desc['sizes']
    for a in (0, 1):
        p, kv = desc['degrees'][a], kvs0[a]
        for u, s in K.insertion_params(p, kv):
            for r in range(1, p - s + 1):
                if only and only != [a, u, r]:
                    continue
                feats = _op_features(desc, kvs0, [u if a == 0 else None, u if a == 1 else None],
                                     [r if a == 0 else 0, r if a == 1 else 0], 'helper_rows')
                rc = dict(case, only=[a, u, r])
                if a == 0:
                    rows = [[list(P[v + sv * i]) for v in range(sv)] for i in range(su)]
                else:
                    rows = [[list(P[j + sv * i]) for i in range(su)] for j in range(sv)]
                try:
                    new_rows = helpers.knot_insertion(p, list(kv), rows, u, num=r)
                except Exception as e:
                    ctx.check('C04.helper.accepted', False, rc, feats, 'admissible insertion is carried out', repr(e)[:300])
                    continue
                n_new = (su if a == 0 else sv) + r
                width = sv if a == 0 else su
                if not ctx.check('C04.helper.size', len(new_rows) == n_new and all(len(row) == width for row in new_rows),
                                 rc, feats, [n_new, width], [len(new_rows), [len(row) for row in new_rows][:8]]):
                    continue
                new_kv = sorted(list(kv) + [u] * r)
                if a == 0:
                    flat = [new_rows[i][v] for i in range(n_new) for v in range(sv)]
                    d_new = R.shape_def(desc['degrees'], [new_kv, kvs0[1]], [n_new, sv], flat, desc['rational'])
                else:
                    flat = [new_rows[j][i] for i in range(su) for j in range(n_new)]
                    d_new = R.shape_def(desc['degrees'], [kvs0[0], new_kv], [su, n_new], flat, desc['rational'])
                ps = K.param_sets(d_new)
                K.same_shape(ctx, 'C04.helper.geometry', d_new, ps, d_orig, ps, scale, rc, feats, TOL)


# ----------------------------------------------------------------------------------------

def _copy_views(case, ctx):
    import copy
    desc = case['shape']
    pd = desc['pdim']
    ctx.state(dict(d=desc, k='copy_views'), nontrivial=True)
    for a in range(pd):
        for target in ('copy', 'original'):
            obj = S.build(desc, ctx.seed)
            before = [[list(p) for p in obj.ctrlpts], list(obj.weights)]
            n0 = len(before[0])
            other = copy.deepcopy(obj)
            edited, kept = (other, obj) if target == 'copy' else (obj, other)
            params, nums = [None] * pd, [0] * pd
            params[a], nums[a] = 0.3, 1
            feats = dict(pdim=pd, rational=True, direction=K.DIRN[a], edited=target, degrees=desc['degrees'])
            rc = dict(case, only=[a, target])
            if 'only' in case and case['only'] != [a, target]:
                continue
            _apply(edited, params, nums, 'operations')
            # read the untouched object first, then the edited one (and the other way round on the second pass)
            kept_views = [[list(p) for p in kept.ctrlpts], list(kept.weights)]
            ed_P, ed_w, ed_Pw = [list(p) for p in edited.ctrlpts], list(edited.weights), [list(p) for p in edited.ctrlptsw]
            grown = n0 // desc['sizes'][a] * (desc['sizes'][a] + 1)
            ctx.check('C04.copy.edited_views_grow', len(ed_P) == len(ed_w) == len(ed_Pw) == grown, rc, feats, grown,
                      [len(ed_P), len(ed_w), len(ed_Pw)])
            if len(ed_P) == len(ed_w) == len(ed_Pw):
                ctx.close('C04.copy.edited_views_consistent', ed_Pw, [[c * w for c in p] + [w] for p, w in zip(ed_P, ed_w)],
                          1e-12, 1.0, rc, feats)
            ctx.close('C04.copy.other_object_untouched', kept_views, before, 0.0, 1.0, rc, feats)
            ctx.close('C04.copy.other_object_untouched', [[list(p) for p in kept.ctrlpts], list(kept.weights)], before, 0.0, 1.0,
                      rc, feats)


def _near_or_generated(case, ctx):
    """(a) parameters a hair below / above an existing knot (closer than the library's multiplicity tolerance 1e-7);
    (b) knot vectors produced by knotvector.generate with the insertion parameter written as the decimal k/n"""
    from geomdl import knotvector, operations
    from fractions import Fraction as F
    desc = case['shape']
    pd = desc['pdim']
    a = case['dir']
    p = desc['degrees'][a]
    ctx.state(dict(d=desc, k=case['kind'], a=a), nontrivial=True)
    if case['kind'] == 'generated':
        seg = case['segments']
        n = p + seg
        kvs = [list(k) for k in desc['kvs']]
        kvs[a] = knotvector.generate(p, n)
        d2 = A.shape_desc(kvs, desc['degrees'], desc['rational'], desc['dim'], desc['net'], desc.get('weights', 'ones'))
        params = [(float(k) / float(seg), None) for k in range(1, seg)] + [((k + 0.5) / seg, None) for k in range(seg)]
    else:
        d2 = desc
        interior = sorted(set(k for k in desc['kvs'][a] if 0.0 < k < 1.0))
        params = []
        for t in interior:
            params += [(t - 1e-9, 'below'), (t - 5e-8, 'below'), (t + 1e-9, 'above'), (t - 1e-5, 'clear'), (t + 1e-5, 'clear')]
    for u, near in params:
        if 'only' in case and case['only'] != [u]:
            continue
        obj = S.build(d2, ctx.seed)
        model0 = R.def_from_obj(obj)
        if sum(1 for k in model0['kvs'][a] if k == F(u)) >= p:
            continue        # exactly on a knot of full multiplicity: not an admissible insertion
        scale = S.max_abs(model0)
        prm, num = [None] * pd, [0] * pd
        prm[a], num[a] = u, 1
        feats = dict(pdim=pd, rational=desc['rational'], degree=p, direction=K.DIRN[a], near_knot=near, family=case['kind'],
                     segments=case.get('segments'))
        rc = dict(case, only=[u])
        try:
            operations.insert_knot(obj, prm, num)
        except Exception as e:
            ctx.check('C04.insert.accepted', False, rc, feats, 'admissible insertion accepted', repr(e))
            continue
        m1 = R.def_from_obj(obj)
        sets = [A.params_for(q, [float(x) for x in kv], per_span=(2 * q + 1) if desc['rational'] else (q + 1), extras=False)
                for q, kv in zip(model0['degrees'], model0['kvs'])]
        import itertools
        ok = True
        worst = None
        for pr in itertools.product(*sets):
            fp = [F(x) for x in pr]
            e, g = R.eval_point(model0, fp), R.eval_point(m1, fp)
            good, _ = core._close(g, e, 1e-7, scale)
            if not good:
                ok, worst = False, (list(pr), [float(x) for x in e], [float(x) for x in g])
                break
        ctx.check('C04.insert.geometry', ok, rc, feats, 'every evaluated point unchanged', worst)


def run_case(case, ctx):
    kind = case.get('kind', 'seq')
    desc = case['shape']
    if kind in ('near_knot', 'generated'):
        return _near_or_generated(case, ctx)
    if kind == 'copy_views':
        return _copy_views(case, ctx)
    if kind == 'e1':
        _e1_case(case, ctx)
    elif kind == 'helper':
        _helper_case(case, ctx)
    elif kind == 'tree':
        _tree_case(case, ctx)
    elif kind == 'seq':
        ctx.state(dict(d=desc, s=ctx.seed), nontrivial=True)
        _run_seq(ctx, desc, case['ops'], case.get('entry', 'operations'), tag=case.get('tag', 'insert'))
    elif kind == 'reject':
        obj = S.build(desc, ctx.seed)
        params, nums = _norm_op(case['ops'][0], desc['pdim'])
        _reject(ctx, desc, K.obj_kvs(obj), params, nums)
    elif kind == 'evaluated':
        obj, d_orig, scale = _setup(desc, ctx)
        params, nums = _norm_op(case['ops'][0], desc['pdim'])
        _evaluated_variant(ctx, desc, d_orig, scale, K.obj_kvs(obj), params, nums)
    else:
        raise ValueError("unknown case kind %r" % kind)

"""C08 - degree elevation keeps a Bezier shape, reduction inverts an exact elevation (explorer E1)."""
import copy
from fractions import Fraction as F

from .. import alphabet as A
from .. import core
from .. import refmodel as R

PROPERTY = "C08"
EXPLORERS = ['E1']
RULE = ("E1: degree 1..8 x elevation count 1..4 x coordinates (Cartesian 2-D, 3-D, homogeneous 4-D) x polygon (every unit "
        "polygon, the index-coded polygon, a seeded integer polygon), as a polygon of points and as a polygon of rows of "
        "points (2 and 3 points per row); reduction of every 1-step elevation of those polygons (original degree 1..8, "
        "elevation produced by the library and by the exact model) and the t-fold reduction of every t-fold elevation; "
        "rejections (length != degree+1 both ways, count 0/-1/-3, reduction of degree 0 and 1); non-trivial = polygon "
        "with at least two non-zero control points (coded or seeded) ")
ASSUMPTIONS = [
    "elevation and reduction are linear in the control polygon: unit polygons + one coded + one seeded polygon decide all polygons up to rounding",
    "two polynomials of degree <= p+t that agree at p+t+1 distinct parameters are identical, so agreement at k/(p+t), k=0..p+t decides the identity of the curves",
    "a polygon of rows of points is elevated/reduced column by column (every row position is an independent Bezier polygon)",
    "tolerance 1e-9 relative to max(1,|P|); end points are compared bit for bit",
]
TOL = 1e-9
G = None  # GeomdlException, bound lazily


def bounds(tier):
    return dict(
        quick=dict(degrees='1..8', counts='1..4', dims=['2', '3', '4h'], nets='all unit, coded, 1 seeded',
                   rows='2 points per row', reduction='orig degree 1..8; t-fold reduction t<=4'),
        thorough=dict(degrees='1..10', counts='1..6', dims=['1', '2', '3', '4h', '5'], nets='all unit, coded, 4 seeded',
                      rows='2 and 3 points per row', reduction='orig degree 1..10; t-fold reduction t<=6'))[tier]


# ----------------------------------------------------------------------------------------
# polygons
# ----------------------------------------------------------------------------------------

def _points(n, dim, net, seed):
    """n points; dim '4h' = homogeneous (xw, yw, zw, w) with coded positive weights"""
    if dim == '4h':
        if net.startswith('unit:'):
            return A.make_net([n], 4, net)
        pts = A.make_net([n], 3, 'seeded' if net.startswith('seeded') else net, seed)
        w = A.make_weights([n], 'coded')
        return [[c * wi for c in p] + [wi] for p, wi in zip(pts, w)]
    return A.make_net([n], int(dim), 'seeded' if net.startswith('seeded') else net, seed)


def _net_seed(case, ctx):
    net = case['net']
    if net.startswith('seeded'):
        k = int(net.split(':')[1]) if ':' in net else 0
        return ctx.seed + 1000 * k
    return 0


def polygon(case, ctx):
    """the control polygon of a case: list of points, or list of rows (lists) of points"""
    if 'P' in case:
        return copy.deepcopy(case['P'])
    n = case['degree'] + 1
    rows = case.get('rows', 0)
    seed = _net_seed(case, ctx)
    if not rows:
        return _points(n, case['dim'], case['net'], seed)
    # rows: entry i = [point(i, 0), ..., point(i, rows-1)]; columns get different polygons
    cols = []
    for c in range(rows):
        net = case['net']
        if net.startswith('unit:'):
            m = int(net.split(':')[1])
            pts = _points(n, case['dim'], 'unit:%d' % ((m + c) % n), seed)
        else:
            pts = _points(n, case['dim'], net, seed + 17 * c)
            pts = [[x + c * (i + 1) for x in p] for i, p in enumerate(pts)]
        cols.append(pts)
    return [[cols[c][i] for c in range(rows)] for i in range(n)]


def _columns(P, rows):
    if not rows:
        return [P]
    return [[entry[c] for entry in P] for c in range(rows)]


def _exact(P):
    return [tuple(F(x) for x in pt) for pt in P]


def _scale(P, rows):
    return max(1.0, max(abs(x) for col in _columns(P, rows) for pt in col for x in pt))


# ----------------------------------------------------------------------------------------

def gen_cases(tier, seed):
    q = tier == 'quick'
    degs = range(1, 9) if q else range(1, 11)
    nums = range(1, 5) if q else range(1, 7)
    dims = ['2', '3', '4h'] if q else ['2', '3', '4h', '1', '5']
    seeded = ['seeded'] if q else ['seeded', 'seeded:1', 'seeded:2', 'seeded:3']
    rowlens = [2] if q else [2, 3]
    cases = []
    for p in degs:
        nets = ['unit:%d' % i for i in range(p + 1)] + ['coded'] + seeded
        for dim in dims:
            for net in nets:
                for t in nums:
                    cases.append(dict(kind='elevate', degree=p, num=t, dim=dim, net=net, rows=0))
                cases.append(dict(kind='reduce', degree=p, dim=dim, net=net, rows=0, src='library'))
                cases.append(dict(kind='reduce', degree=p, dim=dim, net=net, rows=0, src='model'))
                cases.append(dict(kind='reduce_multi', degree=p, nums=list(nums), dim=dim, net=net, rows=0))
        # data variety: negative / fractional / huge / tiny coordinates, coincident points, closed and collinear polygons
        for dim in dims[:3]:
            for net in A.VARIETY_NETS:
                for t in (1, 2) if q else nums:
                    cases.append(dict(kind='elevate', degree=p, num=t, dim=dim, net=net, rows=0, variety=True))
                # (the exact elevation of a non-integer polygon is not representable in floats: the library's own is reduced)
                cases.append(dict(kind='reduce', degree=p, dim=dim, net=net, rows=0, variety=True,
                                  src='library' if net in ('negfrac', 'tiny') else 'model'))
                if net in ('coincident', 'closed', 'negfrac'):
                    cases.append(dict(kind='elevate', degree=p, num=1, dim=dim, net=net, rows=2, variety=True))
        # rows of points
        for dim in dims[:3]:
            for net in ['unit:0', 'unit:%d' % (p // 2), 'unit:%d' % p, 'coded'] + seeded[:1]:
                for r in rowlens:
                    for t in nums:
                        cases.append(dict(kind='elevate', degree=p, num=t, dim=dim, net=net, rows=r))
                    cases.append(dict(kind='reduce', degree=p, dim=dim, net=net, rows=r, src='model'))
        for dim in dims[:3]:
            cases.append(dict(kind='reject', degree=p, dim=dim, net='coded', rows=0))
        cases.append(dict(kind='reject', degree=p, dim='3', net='coded', rows=2))
    # history dependence: the same judged calls after earlier calls that used non-default keywords
    for prior in PRIORS:
        for p in (1, 2, 3, 5):
            cases.append(dict(kind='elevate', degree=p, num=1, omit_num=True, dim='3', net='coded', rows=0, prior=[prior]))
            cases.append(dict(kind='elevate', degree=p, num=2, dim='2', net='coded', rows=0, prior=[prior]))
            cases.append(dict(kind='reject', degree=p, dim='3', net='coded', rows=0, prior=[prior]))
            if p >= 2:
                cases.append(dict(kind='reduce', degree=p, dim='3', net='coded', rows=0, src='model', prior=[prior]))
    for p in (1, 2, 4):
        cases.append(dict(kind='elevate', degree=p, num=1, omit_num=True, dim='3', net='coded', rows=0))
    # the same operation on Bezier curve OBJECTS through operations.degree_operations (the other documented route), on
    # normalised knots and on knot ranges kept as given
    for p in (1, 2, 3, 5) if q else (1, 2, 3, 4, 5, 6):
        for t in (1, 2):
            for rng in ([0.0, 1.0, True], [2.0, 5.0, False], [-5.0, -1.0, False], [0.0, 3.0, False]):
                for rat in (False, True):
                    cases.append(dict(kind='object', degree=p, num=t, dim='3', net='coded', rows=0, range=rng, rational=rat))
    return cases


def case_weight(c):
    return (c['degree'] + 1) ** 2 * (2 if c['kind'] != 'elevate' else 1)


def run_case(case, ctx):
    global G
    from geomdl.exceptions import GeomdlException
    G = GeomdlException
    core.clear_lru_caches()
    _prior_calls(case.get('prior'))
    k = case['kind']
    if k == 'elevate':
        _elevate(case, ctx)
    elif k == 'reduce':
        _reduce(case, ctx)
    elif k == 'reduce_multi':
        _reduce_multi(case, ctx)
    elif k == 'reject':
        _reject(case, ctx)
    elif k == 'object':
        _object(case, ctx)
    else:
        raise ValueError(k)


def _object(case, ctx):
    """a single-span (Bezier) curve object elevated by t and reduced again through operations.degree_operations"""
    from geomdl import BSpline, NURBS, operations
    p, t, (lo, hi, norm), rat = case['degree'], case['num'], case['range'], case['rational']
    pts = A.make_net([p + 1], 3, 'coded')
    w = A.make_weights([p + 1], 'coded') if rat else [1.0] * (p + 1)
    Pw = [[c * wi for c in pt] + [wi] for pt, wi in zip(pts, w)]
    crv = (NURBS.Curve if rat else BSpline.Curve)(**({} if norm else dict(normalize_kv=False)))
    crv.degree = p
    crv.set_ctrlpts(copy.deepcopy(Pw if rat else pts))
    crv.knotvector = [lo] * (p + 1) + [hi] * (p + 1)
    f = dict(degree=p, num=t, rational=rat, normalize_kv=norm, range=[lo, hi], route='operations.degree_operations')
    ctx.state(dict(k='obj', c=case), nontrivial=True)
    exact0 = _exact(Pw if rat else pts)
    sc = max(1.0, max(abs(c) for pt in (Pw if rat else pts) for c in pt))
    try:
        operations.degree_operations(crv, [t])
    except Exception as e:
        ctx.check('C08.object.elevation.accepted', False, case, f, 'elevated curve', repr(e))
        return
    ctx.check('C08.object.elevation.accepted', True, case, f)
    E = R.bezier_elevate(exact0, t)
    got = [list(x) for x in (crv.ctrlptsw if rat else crv.ctrlpts)]
    ok = ctx.check('C08.object.elevation.degree_and_size', crv.degree == p + t and len(got) == p + t + 1, case, f, [p + t, p + t + 1],
                   [crv.degree, len(got)])
    ctx.check('C08.object.elevation.knotvector', [float(k) for k in crv.knotvector] == [lo] * (p + t + 1) + [hi] * (p + t + 1), case, f,
              [lo] * (p + t + 1) + [hi] * (p + t + 1), list(crv.knotvector))
    if ok:
        ctx.close('C08.object.elevation.polygon', got, E, 1e-12, sc, case, f)
        # the curve itself, at parameters of its own domain
        m = R.def_from_obj(crv)
        d0, d1 = R.domain(p + t, m['kvs'][0])
        ctx.check('C08.object.elevation.domain', (float(d0), float(d1)) == (lo, hi), case, f, [lo, hi], [float(d0), float(d1)])
        if (float(d0), float(d1)) == (lo, hi):
            for i in range(0, 9):
                u = lo + (hi - lo) * i / 8.0
                x = (F(u) - F(lo)) / (F(hi) - F(lo))
                b = R.bezier_point(exact0, x)
                exp = [c / b[-1] for c in b[:-1]] if rat else list(b)
                ctx.close('C08.object.elevation.same_curve', crv.evaluate_single(u), exp, 1e-10, sc, dict(case, u=u), f)
    # reduce t times: the original polygon comes back
    try:
        for _ in range(t):
            operations.degree_operations(crv, [-1])
    except Exception as e:
        ctx.check('C08.object.reduction.accepted', False, case, f, 'reduced curve', repr(e))
        return
    ctx.check('C08.object.reduction.accepted', True, case, f)
    back = [list(x) for x in (crv.ctrlptsw if rat else crv.ctrlpts)]
    if ctx.check('C08.object.reduction.degree_and_size', crv.degree == p and len(back) == p + 1, case, f, [p, p + 1], [crv.degree, len(back)]):
        ctx.close('C08.object.reduction.roundtrip', back, exact0, 1e-9, sc, case, f)
        ctx.check('C08.object.reduction.knotvector', [float(k) for k in crv.knotvector] == [lo] * (p + 1) + [hi] * (p + 1), case, f,
                  [lo] * (p + 1) + [hi] * (p + 1), list(crv.knotvector))
    ctx.outcome(('obj', p, t, rat, norm))


PRIORS = ['elevate_num3', 'elevate_nocheck', 'reduce_nocheck', 'elevate_rows_num2']


def _prior_calls(prior):
    """earlier calls with non-default keywords: answers of later calls must not depend on them"""
    if not prior:
        return
    from geomdl import helpers
    Q = [[0.0, 0.0], [1.0, 2.0], [3.0, 1.0]]
    for name in prior:
        try:
            if name == 'elevate_num3':
                helpers.degree_elevation(2, copy.deepcopy(Q), num=3)
            elif name == 'elevate_nocheck':
                helpers.degree_elevation(2, copy.deepcopy(Q), num=2, check_num=False)
            elif name == 'reduce_nocheck':
                helpers.degree_reduction(2, copy.deepcopy(Q), check_num=False)
            elif name == 'elevate_rows_num2':
                helpers.degree_elevation(1, [[[0.0, 0.0], [1.0, 1.0]], [[2.0, 0.0], [3.0, 1.0]]], num=2)
        except Exception:
            pass


def _feats(case, **kw):
    f = dict(degree=case['degree'], dim=case['dim'], homogeneous=case['dim'] == '4h', rows=bool(case.get('rows')),
             row_length=case.get('rows', 0), net=case['net'].split(':')[0])
    f.update(kw)
    return f


def _nontrivial(case):
    return not case['net'].startswith('unit')


def _call(fn, *a, **kw):
    """(result, None) or (None, exception) - TypeError/IndexError... on rows of points is judged, not a crash"""
    try:
        return fn(*a, **kw), None
    except Exception as e:  # judged by the caller through an obligation
        return None, e


def _wellformed(Q, n, P, rows):
    """Q has n entries shaped like the entries of P"""
    if not isinstance(Q, (list, tuple)) or len(Q) != n:
        return False
    for e in Q:
        if rows:
            if not isinstance(e, (list, tuple)) or len(e) != rows:
                return False
            if any(not isinstance(pt, (list, tuple)) or len(pt) != len(P[0][0]) for pt in e):
                return False
        elif not isinstance(e, (list, tuple)) or len(e) != len(P[0]):
            return False
    return True


def _elevate(case, ctx):
    from geomdl import helpers
    p, t, rows = case['degree'], case['num'], case.get('rows', 0)
    P = polygon(case, ctx)
    before = copy.deepcopy(P)
    case = dict(case, P=before)          # replay cases carry the explicit polygon
    ctx.state(dict(k='elev', P=P, t=t), nontrivial=_nontrivial(case))
    f = _feats(case, num=t)
    base = 'C08.elevation.rows' if rows else 'C08.elevation'
    E, exc = _call(helpers.degree_elevation, p, P, **({} if case.get('omit_num') else {'num': t}))
    if rows:
        # acceptance of the rows shape is the obligation C08.elevation.rows itself
        if not ctx.check('C08.elevation.rows', exc is None, case, f, 'elevated rows', repr(exc),
                         'polygon of rows of points not accepted'):
            return
    elif exc is not None:
        raise exc
    ctx.check(base + '.input_unchanged', P == before, case, f, before, P)
    if not ctx.check(base + '.shape', _wellformed(E, p + t + 1, P, rows), case, f, p + t + 1,
                     len(E) if isinstance(E, (list, tuple)) else repr(E)):
        return
    sc = _scale(before, rows)
    ok_ends = True
    for Pc, Ec in zip(_columns(before, rows), _columns(E, rows)):
        Pe, Ee = _exact(Pc), _exact(Ec)
        # the elevated polygon is the unique degree p+t polygon of the same curve
        ctx.close(base + '.polygon', Ec, R.bezier_elevate(Pe, t), TOL, sc, case, f)
        # identity of the polynomials: p+t+1 parameters
        m = p + t
        for kk in range(m + 1):
            u = F(kk, m)
            ctx.close(base + '.identity', R.bezier_point(Ee, u), R.bezier_point(Pe, u), TOL, sc,
                      case, dict(f, u=float(u)))
        if case['dim'] == '4h':
            # projected (rational) curve as well, where the weight function is away from zero
            for kk in range(m + 1):
                u = F(kk, m)
                a, b = R.bezier_point(Ee, u), R.bezier_point(Pe, u)
                if b[-1] > F(1, 4) and a[-1] != 0:
                    ctx.close(base + '.identity_projected', [x / a[-1] for x in a[:-1]], [x / b[-1] for x in b[:-1]],
                              TOL, sc, case, dict(f, u=float(u)))
        ok_ends = ok_ends and list(Ec[0]) == list(Pc[0]) and list(Ec[-1]) == list(Pc[-1])
        ctx.outcome(tuple(round(float(x), 9) for pt in Ec for x in pt))
    ctx.check(base + '.endpoints', ok_ends, case, f, [before[0], before[-1]], [E[0], E[-1]],
              'end control points must be bit-identical')


def _reduce(case, ctx):
    """reduce a 1-step elevation of a degree p polygon (degree passed to reduction: p+1)"""
    from geomdl import helpers
    p, rows, src = case['degree'], case.get('rows', 0), case['src']
    P = polygon(case, ctx)
    case = dict(case, P=copy.deepcopy(P))
    if src == 'model':
        # scale by p+1 so that the exact elevation is exactly representable: the input IS an exact elevation
        cols = []
        for Pc in _columns(P, rows):
            Pc = [[x * (p + 1) for x in pt] for pt in Pc]
            cols.append((Pc, [[float(x) for x in pt] for pt in R.bezier_elevate(_exact(Pc), 1)]))
        assert all(F(x) == y for Pc, Ec in cols for pt, ept in zip(Ec, R.bezier_elevate(_exact(Pc), 1))
                   for x, y in zip(pt, ept)), "model elevation not representable"
        if rows:
            P = [[cols[c][0][i] for c in range(rows)] for i in range(p + 1)]
            E = [[cols[c][1][i] for c in range(rows)] for i in range(p + 2)]
        else:
            P, E = cols[0]
    else:
        E = helpers.degree_elevation(p, copy.deepcopy(P), num=1)
    ctx.state(dict(k='red', E=E), nontrivial=_nontrivial(case))
    f = _feats(case, degree=p + 1, orig_degree=p, src=src)
    base = 'C08.reduction.rows' if rows else 'C08.reduction'
    before = copy.deepcopy(E)
    Q, exc = _call(helpers.degree_reduction, p + 1, E)
    if rows:
        if not ctx.check('C08.reduction.rows', exc is None, case, f, 'reduced rows', repr(exc),
                         'polygon of rows of points not accepted'):
            return
    elif exc is not None:
        raise exc
    ctx.check(base + '.input_unchanged', E == before, case, f, before, E)
    if not ctx.check(base + '.shape', _wellformed(Q, p + 1, P, rows), case, f, p + 1,
                     len(Q) if isinstance(Q, (list, tuple)) else repr(Q)):
        return
    sc = _scale(P, rows)
    ctx.close(base + '.roundtrip', Q, P, TOL, sc, case, f)
    ends = all(list(Qc[0]) == list(Ec[0]) and list(Qc[-1]) == list(Ec[-1])
               for Qc, Ec in zip(_columns(Q, rows), _columns(before, rows)))
    ctx.check(base + '.endpoints', ends, case, f, [before[0], before[-1]], [Q[0], Q[-1]])
    ctx.outcome(tuple(round(float(x), 9) for Qc in _columns(Q, rows) for pt in Qc for x in pt))


def _reduce_multi(case, ctx):
    """t reductions of a t-fold elevation walk back through the exact elevations to the original"""
    from geomdl import helpers
    p = case['degree']
    P = polygon(case, ctx)
    case = dict(case, P=copy.deepcopy(P))
    Pe = _exact(P)
    sc = _scale(P, 0)
    for t in case['nums']:
        Q = helpers.degree_elevation(p, copy.deepcopy(P), num=t)
        ctx.state(dict(k='redm', E=Q), nontrivial=_nontrivial(case))
        for step in range(1, t + 1):
            d = p + t - step + 1        # degree handed to the reduction
            f = _feats(case, degree=d, orig_degree=p, num=t, step=step)
            rc = dict(case, nums=[t])
            Q = helpers.degree_reduction(d, Q)
            want = R.bezier_elevate(Pe, t - step) if t - step > 0 else Pe
            if not ctx.close('C08.reduction.roundtrip_multi', Q, want, TOL, sc, rc, f):
                break


def _reject(case, ctx):
    from geomdl import helpers
    p, rows = case['degree'], case.get('rows', 0)
    P = polygon(case, ctx)
    case = dict(case, P=copy.deepcopy(P))
    ctx.state(dict(k='rej', P=P), nontrivial=True)
    f = _feats(case)

    def unchanged(obl, fn, arg, feats):
        before = copy.deepcopy(arg)
        ctx.raises(obl, fn, (G,), case, feats)
        ctx.check(obl + '.input_unchanged', arg == before, case, feats, before, arg)

    # length != degree + 1 (non-Bezier input)
    for d in (p - 1, p + 1, p + 2):
        if d < 1:
            continue
        for t in (1, 2):
            unchanged('C08.reject.elevation.length', lambda: helpers.degree_elevation(d, P, num=t), P,
                      dict(f, claimed_degree=d, num=t))
        if d >= 2:
            unchanged('C08.reject.reduction.length', lambda: helpers.degree_reduction(d, P), P, dict(f, claimed_degree=d))
    # non-positive count
    for t in (0, -1, -3):
        unchanged('C08.reject.elevation.count', lambda: helpers.degree_elevation(p, P, num=t), P, dict(f, num=t))
    # reduction below degree 2
    if p == 1:
        unchanged('C08.reject.reduction.degree', lambda: helpers.degree_reduction(1, P), P, dict(f, claimed_degree=1))
        P0 = P[:1]
        unchanged('C08.reject.reduction.degree', lambda: helpers.degree_reduction(0, P0), P0, dict(f, claimed_degree=0))

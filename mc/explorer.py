"""E2 - explicit-state breadth-first exploration of public-operation histories on real objects.

A *system* object provides
    initial()                      -> fresh real object in its initial state
    ops(obj)                       -> list of enabled JSON-serialisable operation descriptors (simplest first)
    apply(obj, op)                 -> observation (JSON-able) or None; performs the public call on obj
    judge(ctx, hist, op, obj, obs, pre) -> evaluates the invariants after `op` (may use its own fresh replays)
    pre(obj, op)                   -> optional: anything to remember before the op (e.g. a deep copy)

States are *rebuilt by replaying the history on a fresh object* (geomdl's deepcopy drops caches, so
copying a live object would reset the hidden state under test).  canon() is a deep-frozen image of
the whole __dict__ (definition + every hidden cache, whatever fields exist): it can only be too fine
(costs time), never too coarse (hide a bug).
"""
import collections
import time
import types

from . import core


def freeze(x, depth=0, memo=None):
    """deep, hashable, refactoring-proof image of arbitrary object state"""
    if memo is None:
        memo = {}
    if x is None or isinstance(x, (bool, int, str)):
        return x
    if isinstance(x, float):
        return round(x, 12) + 0.0
    if isinstance(x, (list, tuple)):
        return tuple(freeze(v, depth + 1, memo) for v in x)
    if isinstance(x, dict):
        return tuple(sorted(((str(k), freeze(v, depth + 1, memo)) for k, v in x.items()), key=lambda kv: kv[0]))
    if isinstance(x, (set, frozenset)):
        return tuple(sorted(freeze(v, depth + 1, memo) for v in x))
    if isinstance(x, (types.FunctionType, types.BuiltinFunctionType, types.MethodType)):
        return 'fn:' + getattr(x, '__qualname__', getattr(x, '__name__', '?'))
    if isinstance(x, type):
        return 'cls:' + x.__name__
    oid = id(x)
    if oid in memo:
        return ('ref', memo[oid])
    memo[oid] = len(memo)
    if depth > 12:
        return 'deep:' + type(x).__name__
    d = getattr(x, '__dict__', None)
    if d is not None:
        return (type(x).__name__,) + tuple((k, freeze(v, depth + 1, memo)) for k, v in sorted(d.items())
                                           if k not in ('_iter_index',))
    return 'obj:' + type(x).__name__


def canon(obj):
    return core.jhash(freeze(obj))


def replay(system, hist):
    obj = system.initial()
    obs = None
    for op in hist:
        obs = system.apply(obj, op)
    return obj, obs


def bfs(system, ctx, depth, deadline=None, max_states=None, label=None, prefix=None, expand=True):
    """explores every history of length <= depth that starts with `prefix` (merging equal canonical
    states); with expand=False only the one-step extensions of the prefix are judged.  Splitting the
    search by first operation only loses merging across prefixes (costs time, never coverage)."""
    t0 = time.time()
    core.clear_lru_caches()
    prefix = list(prefix or [])
    seen = {canon(replay(system, prefix)[0])}
    frontier = collections.deque([prefix])
    stats = dict(states=1, transitions=0, max_depth=0, frontier_exhausted=True, merged=0, determinism_checks=0)
    nt = 0
    while frontier:
        hist = frontier.popleft()
        base, _ = replay(system, hist)
        ops = system.ops(base)
        for op in ops:
            if deadline is not None and time.time() > deadline:
                stats['frontier_exhausted'] = False
                stats['cap'] = 'deadline'
                return stats
            core.clear_lru_caches()
            obj, _ = replay(system, hist)
            pre = system.pre(obj, op) if hasattr(system, 'pre') else None
            obs = system.apply(obj, op)
            key = canon(obj)
            nt += 1
            stats['transitions'] += 1
            h2 = hist + [op]
            stats['max_depth'] = max(stats['max_depth'], len(h2))
            if nt % 64 == 1:
                # replay determinism: same history twice => same state and observation
                core.clear_lru_caches()
                obj2, _ = replay(system, hist)
                if hasattr(system, 'pre'):
                    system.pre(obj2, op)
                obs2 = system.apply(obj2, op)
                stats['determinism_checks'] += 1
                if canon(obj2) != key or freeze(obs2) != freeze(obs):
                    raise RuntimeError("replay divergence (harness nondeterminism) at history %r" % (h2,))
            verdict = system.judge(ctx, hist, op, obj, obs, pre)
            ctx.state((label, key))
            if verdict is False:
                stats['pruned'] = stats.get('pruned', 0) + 1      # do not explore beyond a violating state
                continue
            if key not in seen:
                seen.add(key)
                stats['states'] += 1
                if len(h2) < depth and expand:
                    frontier.append(h2)
                if max_states and stats['states'] >= max_states:
                    stats['frontier_exhausted'] = False
                    stats['cap'] = 'max_states'
                    return stats
            else:
                stats['merged'] += 1
    stats['wall'] = time.time() - t0
    return stats

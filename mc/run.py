"""./check <ID> [--tier quick|thorough] [--replay file] [--procs N]"""
import argparse
import importlib
import json
import os
import sys
import time

from . import core


BUDGET = dict(quick=int(os.environ.get('VERIF_QUICK_BUDGET', '600')),
              thorough=int(os.environ.get('VERIF_THOROUGH_BUDGET', '3600')))


def main(argv=None):
    ap = argparse.ArgumentParser()
    ap.add_argument('prop')
    ap.add_argument('--tier', default=os.environ.get('VERIF_TIER', 'quick'), choices=['quick', 'thorough'])
    ap.add_argument('--replay')
    ap.add_argument('--procs', type=int, default=0)
    args = ap.parse_args(argv)
    seed = int(os.environ.get('VERIF_SEED', '0') or 0)
    core.bind_repo()
    from . import refmodel
    refmodel.self_test()
    mod = importlib.import_module('mc.props.' + args.prop.lower())

    if args.replay:
        with open(args.replay) as f:
            rec = json.load(f)
        ctx = core.Ctx(mod.PROPERTY, args.tier, seed, known=[])
        from . import shapes as _shapes
        _shapes.CURRENT_VIA = rec['case'].get('via') if isinstance(rec['case'], dict) else None
        with core.quiet():
            mod.run_case(rec['case'], ctx)
        obl = rec['obligation']
        n = ctx.nviol.get(obl, 0)
        other = {k: v for k, v in ctx.nviol.items() if k != obl}
        if n:
            r = ctx.records[obl][0]
            print("replay: obligation %s violated again" % obl)
            print("  expected: %s" % json.dumps(r['expected'])[:600])
            print("  observed: %s" % json.dumps(r['observed'])[:600])
            print("VIOLATION property=%s replay=%s obligation=%s" % (mod.PROPERTY, args.replay, obl))
            return 1
        print("replay: obligation %s holds on this case (other violated obligations: %s)" % (obl, other))
        return 0

    t0 = time.time()
    if hasattr(mod, 'main'):
        # properties with their own driver (schedule explorer, fresh interpreters)
        ctx, info, extra = mod.main(args.tier, seed, BUDGET[args.tier], args.procs or None)
    else:
        ctx, info = core.run_cases(mod, args.tier, seed, BUDGET[args.tier], args.procs or None)
        extra = None
    return core.report(mod, ctx, info, args.tier, seed, time.time() - t0, extra)


if __name__ == '__main__':
    sys.exit(main())

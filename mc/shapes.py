"""Builds real geomdl objects from shape descriptors, through the public API only."""
import copy

from . import alphabet as A
from . import refmodel as R


def net_points(desc, seed=0):
    """(unweighted points, weights, homogeneous points) for a descriptor"""
    if 'points' in desc:
        pts = [list(map(float, p)) for p in desc['points']]
    else:
        pts = A.make_net(desc['sizes'], desc['dim'], desc['net'], seed)
    if 'weight_values' in desc:
        w = [float(x) for x in desc['weight_values']]
    else:
        w = A.make_weights(desc['sizes'], desc.get('weights', 'ones'), seed)
    pw = [[c * wi for c in p] + [wi] for p, wi in zip(pts, w)]
    return pts, w, pw


def build(desc, seed=0, **ctor_kw):
    from geomdl import BSpline, NURBS
    pd = desc['pdim']
    mod = NURBS if desc['rational'] else BSpline
    kw = dict(ctor_kw)
    if not desc.get('normalize_kv', True):
        kw['normalize_kv'] = False
    obj = {1: mod.Curve, 2: mod.Surface, 3: mod.Volume}[pd](**kw)
    pts, w, pw = net_points(desc, seed)
    P = pw if desc['rational'] else pts
    if pd == 1:
        obj.degree = desc['degrees'][0]
        obj.set_ctrlpts(copy.deepcopy(P))
        obj.knotvector = list(desc['kvs'][0])
    elif pd == 2:
        obj.degree_u, obj.degree_v = desc['degrees']
        obj.set_ctrlpts(copy.deepcopy(P), *desc['sizes'])
        obj.knotvector_u = list(desc['kvs'][0])
        obj.knotvector_v = list(desc['kvs'][1])
    else:
        obj.degree_u, obj.degree_v, obj.degree_w = desc['degrees']
        obj.set_ctrlpts(copy.deepcopy(P), *desc['sizes'])
        obj.knotvector_u = list(desc['kvs'][0])
        obj.knotvector_v = list(desc['kvs'][1])
        obj.knotvector_w = list(desc['kvs'][2])
    return obj


def model_of(desc, seed=0):
    """exact model straight from the descriptor (knot vectors as given, i.e. before normalisation)"""
    pts, w, pw = net_points(desc, seed)
    return R.shape_def(desc['degrees'], desc['kvs'], desc['sizes'], pw if desc['rational'] else pts, desc['rational'])


def snapshot(obj):
    """full observable definition of a spline object (exact floats), for 'unchanged' obligations"""
    pd = obj.pdimension
    if pd == 1:
        deg, kvs, sizes = [obj.degree], [list(obj.knotvector)], [obj.ctrlpts_size]
    else:
        deg, kvs = list(obj.degree), [list(k) for k in obj.knotvector]
        sizes = list(obj.cpsize)
    P = obj.ctrlptsw if obj.rational else obj.ctrlpts
    return dict(degrees=deg, kvs=kvs, sizes=sizes, P=[list(p) for p in P], rational=obj.rational)


def max_abs(desc_or_def):
    P = desc_or_def['P']
    return float(max(abs(c) for p in P for c in p))


def domain_params(obj):
    """list of (lo, hi) per direction from the object's own knot vectors"""
    pd = obj.pdimension
    if pd == 1:
        return [(obj.knotvector[obj.degree], obj.knotvector[-(obj.degree + 1)])]
    return [(kv[p], kv[-(p + 1)]) for kv, p in zip(obj.knotvector, obj.degree)]

"""Builds real geomdl objects from shape descriptors, through the public API only."""
import copy

from . import alphabet as A
from . import refmodel as R


CURRENT_VIA = None


def net_points(desc, seed=0):
    """(unweighted points, weights, homogeneous points) for a descriptor"""
    if 'points' in desc:
        pts = [list(map(float, p)) for p in desc['points']]
    else:
        pts = A.make_net(desc['sizes'], desc['dim'], desc['net'], seed)
    if 'weight_values' in desc:
        w = [float(x) for x in desc['weight_values']]
    else:
        w = A.make_weights(desc['sizes'], desc.get('weights', 'ones'), seed)
    pw = [[c * wi for c in p] + [wi] for p, wi in zip(pts, w)]
    return pts, w, pw


def build(desc, seed=0, via=None, **ctor_kw):
    """real geomdl object for a descriptor.  via='history': the object does not start its life with this definition -
    it is first built with other control points and other knot vectors (same sizes), every public derived view is read
    (filling whatever caches exist), and only then the final control points and knot vectors are assigned through the
    public setters.  Checks use it to judge objects that reached a definition through edits instead of fresh ones."""
    if via is None:
        via = CURRENT_VIA          # set by the runner from case['via'] so that every module supports it unchanged
    if via in ('history', 'history2'):
        return _build_via_history(desc, seed, order=via, **ctor_kw)
    if isinstance(via, str) and via.startswith('route:'):
        return _build_route(desc, seed, via.split(':', 1)[1], **ctor_kw)
    from geomdl import BSpline, NURBS
    pd = desc['pdim']
    mod = NURBS if desc['rational'] else BSpline
    kw = dict(ctor_kw)
    if not desc.get('normalize_kv', True):
        kw['normalize_kv'] = False
    obj = {1: mod.Curve, 2: mod.Surface, 3: mod.Volume}[pd](**kw)
    pts, w, pw = net_points(desc, seed)
    P = copy.deepcopy(pw if desc['rational'] else pts)
    kv_args = [list(kv) for kv in desc['kvs']]
    # input types (DESIGN §6 wave 5): the documented setters take lists or tuples; integer-valued numbers may arrive as ints
    it = desc.get('input_types')
    if it == 'tuples':
        P = tuple(tuple(p) for p in P)
        kv_args = [tuple(kv) for kv in kv_args]
    elif it == 'ints':
        P = [[int(c) if float(c).is_integer() else c for c in p] for p in P]
        kv_args = [[int(k) if float(k).is_integer() else k for k in kv] for kv in kv_args]
    if pd == 1:
        obj.degree = desc['degrees'][0]
        obj.set_ctrlpts(P)
        obj.knotvector = kv_args[0]
    elif pd == 2:
        obj.degree_u, obj.degree_v = desc['degrees']
        obj.set_ctrlpts(P, *desc['sizes'])
        obj.knotvector_u = kv_args[0]
        obj.knotvector_v = kv_args[1]
    else:
        obj.degree_u, obj.degree_v, obj.degree_w = desc['degrees']
        obj.set_ctrlpts(P, *desc['sizes'])
        obj.knotvector_u = kv_args[0]
        obj.knotvector_v = kv_args[1]
        obj.knotvector_w = kv_args[2]
    # The caller owns the lists it passed in: overwrite them now.  A shape that kept a reference to an argument instead of
    # its own copy is then visibly broken in every check that uses this builder.  (With normalize_kv=False the knot vector
    # setters are documented to store the given list, so those lists are left alone.)
    if it != 'tuples':
        for p in P:
            for j in range(len(p)):
                p[j] = -123.25 - j
        del P[len(P) // 2:]
    if desc.get('normalize_kv', True) and 'normalize_kv' not in ctor_kw and it != 'tuples':
        for kv in kv_args:
            for j in range(len(kv)):
                kv[j] = 0.5
    return obj


ROUTES = ['props', 'views', 'pickle', 'deepcopy', 'grid2d']


def _build_route(desc, seed, route, **ctor_kw):
    """the same definition reached through another documented construction route (DESIGN §6 wave 6):
    props    - tuple properties: degree = (..), knotvector = (..) (curves: ctrlpts property instead of set_ctrlpts)
    views    - sizes through ctrlpts_size_u/v/w, then the unweighted ctrlpts view and (rational) the weights view
    grid2d   - surfaces: the ctrlpts2d grid view; others: as 'views'
    pickle   - main route, then a pickle round trip;   deepcopy - main route, then copy.deepcopy"""
    import pickle
    from geomdl import BSpline, NURBS
    if route in ('pickle', 'deepcopy'):
        obj = build(desc, seed, via='fresh', **ctor_kw)
        return pickle.loads(pickle.dumps(obj)) if route == 'pickle' else copy.deepcopy(obj)
    pd = desc['pdim']
    mod = NURBS if desc['rational'] else BSpline
    kw = dict(ctor_kw)
    if not desc.get('normalize_kv', True):
        kw['normalize_kv'] = False
    obj = {1: mod.Curve, 2: mod.Surface, 3: mod.Volume}[pd](**kw)
    pts, w, pw = net_points(desc, seed)
    sizes = list(desc['sizes'])
    degs = list(desc['degrees'])
    kvs = [list(kv) for kv in desc['kvs']]
    if pd == 1:
        obj.degree = degs[0]
    else:
        obj.degree = tuple(degs) if route == 'props' else list(degs)
    if route == 'grid2d' and pd == 2:
        P = pw if desc['rational'] else pts
        obj.ctrlpts2d = [[list(P[v + sizes[1] * u]) for v in range(sizes[1])] for u in range(sizes[0])]
    elif route == 'props':
        P = copy.deepcopy(pw if desc['rational'] else pts)
        if pd == 1:
            if desc['rational']:
                obj.ctrlptsw = P
            else:
                obj.ctrlpts = P
        else:
            obj.set_ctrlpts(P, *sizes)
    else:       # views
        if pd >= 2:
            for a, nm in enumerate('uvw'[:pd]):
                setattr(obj, 'ctrlpts_size_' + nm, sizes[a])
        obj.ctrlpts = copy.deepcopy(pts)
        if desc['rational']:
            obj.weights = list(w)
    if pd == 1:
        obj.knotvector = kvs[0]
    elif route == 'props':
        obj.knotvector = tuple(kvs)
    else:
        for a, nm in enumerate('uvw'[:pd]):
            setattr(obj, 'knotvector_' + nm, kvs[a])
    return obj


def alt_kv(kv, normalized):
    """another valid knot vector of the same length and multiplicity pattern"""
    lo, hi = kv[0], kv[-1]
    if normalized:
        return [lo + (hi - lo) * ((k - lo) / (hi - lo)) ** 2 for k in kv]      # interior knots moved, same range
    return [lo + (k - lo) / 2.0 for k in kv]                                  # half the range: old domain end is interior


def _build_via_history(desc, seed, order='history', **ctor_kw):
    pd = desc['pdim']
    norm = desc.get('normalize_kv', True)
    pts, w, pw = net_points(desc, seed)
    first = dict(desc)
    first['kvs'] = [alt_kv(kv, norm) for kv in desc['kvs']]
    first['points'] = [[c + 1.5 for c in p] for p in pts]
    first['weight_values'] = [wi * 2.0 if i % 2 else wi for i, wi in enumerate(w)]
    obj = build(first, seed, via='fresh', **ctor_kw)

    def read_all():
        for name in ('ctrlpts', 'weights', 'ctrlptsw', 'ctrlpts2d', 'bbox', 'domain', 'range', 'evalpts', 'data', 'sample_size',
                     'delta', 'vertices', 'faces'):
            try:
                getattr(obj, name)
            except Exception:
                pass
        try:
            doms = domain_params(obj)
            mid = [(lo + hi) / 2.0 for lo, hi in doms]
            obj.evaluate_single(mid[0] if pd == 1 else mid)
            if pd == 1:
                obj.derivatives(mid[0], 2)
            elif pd == 2:
                obj.derivatives(mid[0], mid[1], 2)
        except Exception:
            pass
        # public query functions that take the object (any memo they keep on it is filled now, with soon-stale data)
        from geomdl import construct, operations
        queries = []
        if pd == 1:
            queries = [lambda: operations.tangent(obj, mid[0]), lambda: operations.find_ctrlpts(obj, mid[0]),
                       lambda: operations.length_curve(obj)]
        elif pd == 2:
            queries = [lambda: construct.extract_curves(obj), lambda: operations.tangent(obj, mid),
                       lambda: operations.normal(obj, mid), lambda: operations.find_ctrlpts(obj, mid[0], mid[1])]
        else:
            queries = [lambda: construct.extract_surfaces(obj), lambda: construct.extract_isosurface(obj)]
        for q in queries:
            try:
                q()
            except Exception:
                pass

    def set_points():
        P = pw if desc['rational'] else pts
        if pd == 1:
            obj.set_ctrlpts(copy.deepcopy(P))
        else:
            obj.set_ctrlpts(copy.deepcopy(P), *desc['sizes'])

    def set_knots():
        if pd == 1:
            obj.knotvector = list(desc['kvs'][0])
        else:
            for a, nm in enumerate('uvw'[:pd]):
                setattr(obj, 'knotvector_' + nm, list(desc['kvs'][a]))

    # every public derived view is read before and between the edits that lead to the wanted definition
    read_all()
    for step in ((set_points, set_knots) if order == 'history' else (set_knots, set_points)):
        step()
        if step is not (set_knots if order == 'history' else set_points):
            read_all()
    return obj


def model_of(desc, seed=0):
    """exact model straight from the descriptor (knot vectors as given, i.e. before normalisation)"""
    pts, w, pw = net_points(desc, seed)
    return R.shape_def(desc['degrees'], desc['kvs'], desc['sizes'], pw if desc['rational'] else pts, desc['rational'])


def snapshot(obj):
    """full observable definition of a spline object (exact floats), for 'unchanged' obligations"""
    pd = obj.pdimension
    if pd == 1:
        deg, kvs, sizes = [obj.degree], [list(obj.knotvector)], [obj.ctrlpts_size]
    else:
        deg, kvs = list(obj.degree), [list(k) for k in obj.knotvector]
        sizes = list(obj.cpsize)
    P = obj.ctrlptsw if obj.rational else obj.ctrlpts
    return dict(degrees=deg, kvs=kvs, sizes=sizes, P=[list(p) for p in P], rational=obj.rational)


def max_abs(desc_or_def):
    P = desc_or_def['P']
    return float(max(abs(c) for p in P for c in p))


def domain_params(obj):
    """list of (lo, hi) per direction from the object's own knot vectors"""
    pd = obj.pdimension
    if pd == 1:
        return [(obj.knotvector[obj.degree], obj.knotvector[-(obj.degree + 1)])]
    return [(kv[p], kv[-(p + 1)]) for kv, p in zip(obj.knotvector, obj.degree)]

"""Runner plumbing: obligations, violations, known findings, evidence, replay files, sharding.

A property module (mc/props/cXX.py) provides
    PROPERTY      = "C03"
    RULE          = "how cases are enumerated / what makes one non-trivial"
    ASSUMPTIONS   = [...]
    gen_cases(tier, seed)   -> iterable of JSON-serialisable case dicts (cheap; simplest first)
    run_case(case, ctx)     -> executes the real library on that case and calls ctx.check/ctx.close
    bounds(tier)            -> dict describing the explored bounds (for the evidence file)
Every violation record carries a *replay case* that run_case accepts as is, so a counterexample can
be re-judged without the explorer (`./check CXX --replay file`).
"""
import contextlib
import hashlib
import io
import json
import multiprocessing
import os
import sys
import time
import traceback
from collections import defaultdict

VERIF = os.path.dirname(os.path.dirname(os.path.abspath(__file__)))
REPO = os.environ.get('VERIF_REPO', '/repo')
OUT = os.environ.get('VERIF_OUT', VERIF)      # where evidence/ and replays/ are written (scratch dir for mutant runs)
MAX_RECORDS = 3


def bind_repo():
    """make sure `import geomdl` executes /repo's current working tree"""
    if sys.path[0] != REPO:
        sys.path.insert(0, REPO)
    import geomdl
    here = os.path.realpath(os.path.dirname(geomdl.__file__))
    assert here.startswith(os.path.realpath(REPO) + os.sep), "geomdl not imported from %s: %s" % (REPO, here)
    return geomdl


def clear_lru_caches():
    """reset every functools.lru_cache wrapper found in geomdl.* (module-level hidden state)"""
    n = 0
    for name, mod in list(sys.modules.items()):
        if not name.startswith('geomdl') or mod is None:
            continue
        for attr in list(vars(mod).values()):
            cc = getattr(attr, 'cache_clear', None)
            if cc is not None and callable(cc):
                try:
                    cc()
                    n += 1
                except Exception:
                    pass
    return n


def jhash(obj):
    return hashlib.blake2b(json.dumps(obj, sort_keys=True, default=str).encode(), digest_size=8).hexdigest()


# ----------------------------------------------------------------------------------------
# known findings
# ----------------------------------------------------------------------------------------

def load_known(prop):
    path = os.path.join(VERIF, 'known_findings.json')
    if not os.path.exists(path):
        return []
    with open(path) as f:
        data = json.load(f)
    return [e for e in data.get('findings', []) if e.get('property') == prop and e.get('status') == 'known']


def _pred(constraint, value):
    if isinstance(constraint, dict):
        for op, arg in constraint.items():
            if value is None:
                return False
            if op == 'ge' and not value >= arg:
                return False
            if op == 'gt' and not value > arg:
                return False
            if op == 'le' and not value <= arg:
                return False
            if op == 'lt' and not value < arg:
                return False
            if op == 'ne' and not value != arg:
                return False
            if op == 'in' and value not in arg:
                return False
            if op == 'eq' and not value == arg:
                return False
        return True
    return value == constraint


def match_known(known, obligation, features):
    for e in known:
        eo = e['obligation']
        if not (eo == obligation or (eo.endswith('*') and obligation.startswith(eo[:-1]))):
            continue
        when = e.get('when', {})
        if all(_pred(c, (features or {}).get(k)) for k, c in when.items()):
            return e
    return None


# ----------------------------------------------------------------------------------------
# context
# ----------------------------------------------------------------------------------------

class Ctx(object):
    def __init__(self, prop, tier, seed, known=None):
        self.prop, self.tier, self.seed = prop, tier, seed
        self.known = known if known is not None else load_known(prop)
        self.checked = defaultdict(int)
        self.nviol = defaultdict(int)
        self.records = defaultdict(list)          # obligation -> first few new violations
        self.known_hits = defaultdict(int)        # finding id -> count
        self.known_records = {}                   # finding id -> first record
        self.maxdisc = defaultdict(float)
        self.states = set()
        self.nontrivial = set()
        self.outcomes = set()
        self.transitions = 0
        self.cases = 0
        self.samples = []
        self.extra = defaultdict(int)
        self.errors = []

    # -- bookkeeping -----------------------------------------------------------------
    def state(self, key, nontrivial=True):
        h = key if isinstance(key, str) else jhash(key)
        self.states.add(h)
        if nontrivial:
            self.nontrivial.add(h)

    def outcome(self, key):
        if len(self.outcomes) < 200000:
            self.outcomes.add(key if isinstance(key, str) else jhash(key))

    def sample(self, case):
        if len(self.samples) < 3:
            self.samples.append(case)

    # -- verdicts --------------------------------------------------------------------
    def check(self, obligation, cond, case=None, features=None, expected=None, observed=None, msg=None):
        self.checked[obligation] += 1
        self.transitions += 1
        if cond:
            return True
        from . import shapes as _shapes
        if _shapes.CURRENT_VIA:
            if isinstance(case, dict) and 'via' not in case:
                case = dict(case, via=_shapes.CURRENT_VIA)      # so that the replay rebuilds the object the same way
            features = dict(features or {}, via=_shapes.CURRENT_VIA)
        sess = getattr(self, 'session', None)
        if sess:
            # inside a long session (run_session): the replay has to re-run the session up to this step, not the step alone
            case = dict(sess['case'], upto=sess['index'], inner=case)
            features = dict(features or {}, session=sess['case'].get('name'), session_step=sess['index'])
        rec = dict(obligation=obligation, case=case, features=features or {},
                   expected=_js(expected), observed=_js(observed), message=msg)
        kf = match_known(self.known, obligation, features)
        if kf is not None:
            self.known_hits[kf['id']] += 1
            if kf['id'] not in self.known_records:
                self.known_records[kf['id']] = rec
        else:
            self.nviol[obligation] += 1
            if len(self.records[obligation]) < MAX_RECORDS:
                self.records[obligation].append(rec)
            elif sess and not any((r.get('features') or {}).get('session') for r in self.records[obligation]):
                self.records[obligation][-1] = rec        # keep one record that carries its session
        return False

    def close(self, obligation, observed, expected, tol, scale, case=None, features=None, msg=None):
        """numeric comparison of (nested) sequences: |obs - exp| <= tol * max(1, scale, |exp|)"""
        ok, disc = _close(observed, expected, tol, scale)
        if disc > self.maxdisc[obligation] and disc != float('inf'):
            self.maxdisc[obligation] = disc
        return self.check(obligation, ok, case, features, expected, observed, msg)

    def raises(self, obligation, fn, exc_types, case=None, features=None, msg=None):
        # a rejection is a deliberate exception: the library's own GeomdlException or a ValueError (both are used for
        # invalid arguments); which of the two is not part of any property
        exc_types = tuple(exc_types) + (ValueError,)
        try:
            fn()
        except exc_types:
            return self.check(obligation, True, case, features)
        except Exception as e:  # wrong exception type
            return self.check(obligation, False, case, features, expected=str(exc_types),
                              observed=repr(e), msg=msg or "wrong exception type")
        return self.check(obligation, False, case, features, expected=str(exc_types),
                          observed="no exception", msg=msg or "not rejected")

    # -- merge -----------------------------------------------------------------------
    def export(self):
        return dict(checked=dict(self.checked), nviol=dict(self.nviol), records=dict(self.records),
                    known_hits=dict(self.known_hits), known_records=self.known_records,
                    maxdisc=dict(self.maxdisc), states=self.states, nontrivial=self.nontrivial,
                    outcomes=self.outcomes, transitions=self.transitions, cases=self.cases,
                    samples=self.samples, extra=dict(self.extra), errors=self.errors)

    def merge(self, d):
        for k, v in d['checked'].items():
            self.checked[k] += v
        for k, v in d['nviol'].items():
            self.nviol[k] += v
        for k, v in d['records'].items():
            self.records[k].extend(v)
        for k, v in d['known_hits'].items():
            self.known_hits[k] += v
        for k, v in d['known_records'].items():
            if k not in self.known_records or _rank(v) < _rank(self.known_records[k]):
                self.known_records[k] = v
        for k, v in d['maxdisc'].items():
            self.maxdisc[k] = max(self.maxdisc[k], v)
        self.states |= d['states']
        self.nontrivial |= d['nontrivial']
        self.outcomes |= d['outcomes']
        self.transitions += d['transitions']
        self.cases += d['cases']
        for s in d['samples']:
            self.sample(s)
        for k, v in d['extra'].items():
            self.extra[k] += v
        self.errors.extend(d['errors'])


def _rank(rec):
    return len(json.dumps(rec.get('case'), default=str))


def _js(x):
    """JSON-friendly image of an expected/observed value"""
    from fractions import Fraction
    if x is None or isinstance(x, (bool, int, str)):
        return x
    if isinstance(x, float):
        return x
    if isinstance(x, Fraction):
        return float(x)
    if isinstance(x, dict):
        return {str(k): _js(v) for k, v in x.items()}
    if isinstance(x, (list, tuple, set)):
        lst = [_js(v) for v in x]
        return lst if len(lst) <= 64 else lst[:64] + ['... %d more' % (len(lst) - 64)]
    return repr(x)


def _close(obs, exp, tol, scale):
    from fractions import Fraction
    if isinstance(exp, (list, tuple)):
        if not isinstance(obs, (list, tuple)) or len(obs) != len(exp):
            return False, float('inf')
        worst = 0.0
        ok = True
        for o, e in zip(obs, exp):
            k, d = _close(o, e, tol, scale)
            ok = ok and k
            worst = max(worst, d)
        return ok, worst
    try:
        e = float(exp)
        o = float(obs)
    except (TypeError, ValueError):
        return False, float('inf')
    if o != o or e != e:
        return False, float('inf')
    s = max(1.0, float(scale), abs(e))
    d = abs(o - e) / s
    return d <= tol, d


@contextlib.contextmanager
def quiet():
    """the library print()s rejected operations; keep our stdout for VIOLATION lines only"""
    buf = io.StringIO()
    with contextlib.redirect_stdout(buf):
        yield buf


# ----------------------------------------------------------------------------------------
# sharded execution
# ----------------------------------------------------------------------------------------

_WORK = {}


def _worker(args):
    modname, tier, seed, chunk = args
    import importlib
    bind_repo()
    mod = importlib.import_module(modname)
    ctx = Ctx(mod.PROPERTY, tier, seed, known=_WORK.get('known'))
    from . import shapes as _shapes
    for case in chunk:
        ctx.cases += 1
        ctx.sample(case)
        _shapes.CURRENT_VIA = case.get('via') if isinstance(case, dict) else None
        try:
            with quiet():
                mod.run_case(case, ctx)
        except Exception:
            ctx.errors.append(dict(case=case, trace=traceback.format_exc()[-1500:]))
    return ctx.export()


def run_session(mod, ctx, case, subcases, repeat_first):
    """E2 'long session' schedule (DESIGN §6, wave 8): many judged sub-cases with pairwise different arguments are run one
    after the other in ONE process and the first `repeat_first` of them are run again at the end - the schedule (sweep)(head of
    the sweep again).  Whatever the process remembers between calls (memo tables, counters, recycled slots, accumulated
    values) has then been filled far beyond any small capacity when the early requests come back."""
    seq = list(subcases) + list(subcases[:repeat_first])
    upto = case.get('upto', len(seq) - 1)
    try:
        for i, sc in enumerate(seq[:upto + 1]):
            ctx.session = dict(case={k: v for k, v in case.items() if k not in ('upto', 'inner')}, index=i)
            mod.run_case(sc, ctx)
    finally:
        ctx.session = None
    ctx.extra['session_steps'] += min(len(seq), upto + 1)


def _case_families(cases):
    """measured: how many of the enumerated cases belong to which family of the search space (DESIGN §0 / §6)"""
    fam = defaultdict(int)
    for c in cases:
        if not isinstance(c, dict):
            fam['other'] += 1
            continue
        sh = c.get('shape') if isinstance(c.get('shape'), dict) else {}
        tags = []
        if c.get('via'):
            tags.append('reached through edits' if str(c['via']).startswith('history') else 'construction route ' + str(c['via']).split(':')[-1])
        if c.get('kind') == 'session' or c.get('mode') == 'session':
            tags.append('long session')
        if sh.get('variety'):
            tags.append('data variety: ' + str(sh['variety']).split(':')[0])
        elif sh.get('huge'):
            tags.append('huge (> 256 control points)')
        elif sh.get('tall'):
            tags.append('tall thin slice')
        if sh and not sh.get('normalize_kv', True):
            tags.append('knot range kept as given')
        for t in tags or ['small exhaustive alphabet']:
            fam[t] += 1
    return dict(fam)


def run_cases(mod, tier, seed, budget_s, nproc=None):
    """enumerate mod.gen_cases and run them on up to 16 processes; returns (ctx, info)"""
    t0 = time.time()
    cases = list(mod.gen_cases(tier, seed))
    # "start from non-initial states too": every k-th shape case is run a second time on an object that reached the same
    # definition through edits (shapes.build(via='history')) instead of being built fresh
    k = getattr(mod, 'VIA_HISTORY_EVERY', 0)
    if k:
        extra = [dict(c, via='history' if (i // k) % 2 == 0 else 'history2') for i, c in enumerate(cases)
                 if i % k == 0 and isinstance(c, dict) and isinstance(c.get('shape'), dict) and 'via' not in c]
        # ... and every 2k-th one (offset k/2) on an object built through another documented construction route
        # (tuple properties, unweighted / weights / 2-D grid views, pickle round trip, deep copy)
        from . import shapes as _shapes
        off = max(1, k // 2)
        extra += [dict(c, via='route:' + _shapes.ROUTES[(i // (2 * k)) % len(_shapes.ROUTES)]) for i, c in enumerate(cases)
                  if i % (2 * k) == off and isinstance(c, dict) and isinstance(c.get('shape'), dict) and 'via' not in c]
        cases.extend(extra)
    known = load_known(mod.PROPERTY)
    ctx = Ctx(mod.PROPERTY, tier, seed, known=known)
    nproc = nproc or int(os.environ.get('VERIF_PROCS', '0')) or min(16, os.cpu_count() or 1)
    info = dict(total_cases=len(cases), caps_hit=[], completed_cases=0, case_families=_case_families(cases))
    if not cases:
        return ctx, info
    weight = getattr(mod, 'case_weight', None)
    nchunks = max(1, min(len(cases), nproc * 12))
    # deterministic round-robin sharding keeps simplest cases first in every chunk
    chunks = [cases[i::nchunks] for i in range(nchunks)]
    if weight is not None:
        chunks.sort(key=lambda ch: -sum(weight(c) for c in ch))
    args = [(mod.__name__, tier, seed, ch) for ch in chunks]
    _WORK['known'] = known
    if nproc == 1 or len(cases) == 1:
        for a in args:
            ctx.merge(_worker(a))
            info['completed_cases'] = ctx.cases
            if time.time() - t0 > budget_s:
                info['caps_hit'].append('wall budget %ds reached after %d of %d cases' % (budget_s, ctx.cases, len(cases)))
                break
        return ctx, info
    mp = multiprocessing.get_context('fork')
    pool = mp.Pool(nproc)
    try:
        it = pool.imap_unordered(_worker, args, chunksize=1)
        done = 0
        while done < len(args):
            remaining = budget_s - (time.time() - t0)
            try:
                res = it.next(timeout=max(1.0, remaining))
            except multiprocessing.TimeoutError:
                info['caps_hit'].append('wall budget %ds reached after %d of %d chunks (%d cases merged of %d)'
                                        % (budget_s, done, len(args), ctx.cases, len(cases)))
                break
            ctx.merge(res)
            done += 1
        info['completed_cases'] = ctx.cases
    finally:
        pool.terminate()
        pool.join()
    return ctx, info


# ----------------------------------------------------------------------------------------
# reporting
# ----------------------------------------------------------------------------------------

def _reproduces_alone(mod, rec, tier, seed):
    """run the recorded case alone in a forked child of this (so far idle) process; True iff the obligation fails again"""
    r, w = os.pipe()
    pid = os.fork()
    if pid == 0:
        ok = b'0'
        try:
            os.close(r)
            from . import shapes as _shapes
            c = Ctx(mod.PROPERTY, tier, seed, known=[])
            case = rec['case']
            _shapes.CURRENT_VIA = case.get('via') if isinstance(case, dict) else None
            with quiet():
                try:
                    mod.run_case(case, c)
                except Exception:
                    pass
            if c.nviol.get(rec['obligation'], 0):
                ok = b'1'
        except BaseException:
            pass
        finally:
            try:
                os.write(w, ok)
            finally:
                os._exit(0)
    os.close(w)
    data = b''
    try:
        with os.fdopen(r, 'rb') as fh:
            data = fh.read()
    finally:
        os.waitpid(pid, 0)
    return data == b'1'


def write_replay(prop, rec):
    os.makedirs(os.path.join(OUT, 'replays'), exist_ok=True)
    body = dict(property=prop, obligation=rec['obligation'], case=rec['case'], features=rec.get('features'),
                expected=rec.get('expected'), observed=rec.get('observed'), message=rec.get('message'))
    h = jhash(dict(o=rec['obligation'], c=rec['case']))
    path = os.path.join(OUT, 'replays', '%s-%s-%s.json' % (prop, rec['obligation'].replace('/', '_'), h))
    with open(path, 'w') as f:
        json.dump(body, f, indent=1, sort_keys=True, default=str)
    return path


def report(mod, ctx, info, tier, seed, wall, extra_cov=None):
    """prints VIOLATION / KNOWN-FINDING lines, writes evidence, returns exit code"""
    prop = mod.PROPERTY
    lines = []
    exit_code = 0
    for e in ctx.errors[:5]:
        # a crash of the harness itself on a case is reported as a violation of the harness obligation
        pass
    if ctx.errors:
        rec = dict(obligation=prop + '.harness.no_crash', case=ctx.errors[0]['case'], features={},
                   expected='case runs', observed=ctx.errors[0]['trace'], message='unexpected exception in case')
        kf = match_known(ctx.known, rec['obligation'], {})
        if kf is None:
            ctx.nviol[rec['obligation']] += len(ctx.errors)
            ctx.records[rec['obligation']].append(rec)
    for obl in sorted(ctx.nviol):
        # the replay artefact is the smallest recorded case that fails again when run ALONE in a fresh process; failures that
        # depend on what the worker process did before (long sessions) are recorded with their session, which is re-run
        recs = sorted(ctx.records[obl], key=lambda r: (0 if (r.get('features') or {}).get('session') is None else 1, _rank(r)))
        pick = None
        for r in recs[:4] + [r for r in recs if (r.get('features') or {}).get('session') is not None][:2]:
            if obl.endswith('.harness.no_crash') or _reproduces_alone(mod, r, tier, seed):
                pick = r
                break
        if pick is None and recs:
            pick = dict(recs[0], features=dict(recs[0].get('features') or {}, reproduces_alone=False))
        path = write_replay(prop, pick) if pick else '-'
        lines.append("VIOLATION property=%s replay=%s obligation=%s count=%d" % (prop, path, obl, ctx.nviol[obl]))
        exit_code = 1
    for e in ctx.known:
        n = ctx.known_hits.get(e['id'], 0)
        if n:
            path = write_replay(prop, ctx.known_records[e['id']])
            lines.append("KNOWN-FINDING: property=%s %s [id=%s obligation=%s hits=%d replay=%s]"
                         % (prop, e['description'], e['id'], e['obligation'], n, path))
    per = {}
    for obl in sorted(set(ctx.checked) | set(ctx.nviol)):
        per[obl] = dict(checked=ctx.checked.get(obl, 0), violations=ctx.nviol.get(obl, 0),
                        max_discrepancy=ctx.maxdisc.get(obl, 0.0))
    exhaustive = not info.get('caps_hit')
    cov = dict(
        states=len(ctx.states), transitions=ctx.transitions,
        traces_validated_against_impl=ctx.cases,
        samples=ctx.samples[:3] or ['(no case ran)'],
        evaluations=ctx.transitions, distinct_nontrivial=len(ctx.nontrivial),
        rule=getattr(mod, 'RULE', ''), exhaustive=exhaustive,
        per_obligation=per, bounds=mod.bounds(tier) if hasattr(mod, 'bounds') else {},
        caps_hit=info.get('caps_hit', []), total_cases=info.get('total_cases'),
        completed_cases=info.get('completed_cases'),
        distinct_outcomes=len(ctx.outcomes),
        known_finding_hits={k: v for k, v in ctx.known_hits.items()},
        counters=dict(ctx.extra),
        case_families=info.get('case_families', {}),
        extensions="every k-th shape case is repeated on an object that reached its definition through edits (history / history2) "
                   "and every 2k-th on one built through another documented route (%s); k = %s for this module; "
                   "tall / huge / data-variety / pairwise / zero shapes and long sessions are part of the case list where the module "
                   "uses them (see case_families, counted on this run)"
                   % (', '.join(__import__('mc.shapes', fromlist=['ROUTES']).ROUTES), getattr(mod, 'VIA_HISTORY_EVERY', 'n/a')),
    )
    if extra_cov:
        cov.update(extra_cov)
    ev = dict(property_id=prop, tier=tier, seed=seed, level='model_checking', coverage=cov,
              assumptions=list(getattr(mod, 'ASSUMPTIONS', [])), wall_s=round(wall, 3),
              violations=sum(ctx.nviol.values()))
    os.makedirs(os.path.join(OUT, 'evidence'), exist_ok=True)
    with open(os.path.join(OUT, 'evidence', prop + '.json'), 'w') as f:
        json.dump(ev, f, indent=1, sort_keys=True, default=str)
    for ln in lines:
        print(ln)
    print("SUMMARY property=%s tier=%s seed=%d cases=%d/%s states=%d transitions=%d obligations=%d "
          "new_violations=%d known_hits=%d exhaustive=%s wall=%.1fs"
          % (prop, tier, seed, ctx.cases, info.get('total_cases'), len(ctx.states), ctx.transitions, len(per),
             sum(ctx.nviol.values()), sum(ctx.known_hits.values()), exhaustive, wall))
    return exit_code

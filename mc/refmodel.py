"""Exact reference model (fractions.Fraction) written from the textbook *definitions*.

Nothing in here is transcribed from The NURBS Book algorithms the library implements:
 * span        = the unique non-empty half-open knot interval containing u (last one at the end)
 * N_{i,p}     = Cox-de Boor recursion, also as polynomial coefficient vectors on one span
 * point       = tensor product sum (divided by the weight function for rational shapes)
 * derivatives = exact derivatives of those polynomials; rational ones by power-series division
 * Bernstein, Gaussian elimination, Leibniz determinant, planar predicates: see below

Floats coming from the library are converted with Fraction(float), which is exact.
"""
from fractions import Fraction as F
from functools import lru_cache
from itertools import permutations
from math import factorial


def fr(x):
    return x if isinstance(x, F) else F(x)


def frv(v):
    return tuple(fr(x) for x in v)


# ----------------------------------------------------------------------------------------
# knots / spans
# ----------------------------------------------------------------------------------------

def domain(p, U):
    return U[p], U[len(U) - p - 1]


def find_span(p, U, u):
    """unique i with U[i] <= u < U[i+1], U[i] < U[i+1]; at the domain end the last non-empty span"""
    n = len(U) - p - 1          # number of control points
    lo, hi = U[p], U[n]
    if u < lo or u > hi:
        raise ValueError("parameter outside domain")
    if u == hi:
        i = n - 1
        while i > p and U[i] == U[i + 1]:
            i -= 1
        return i
    i = p
    for k in range(p, n):
        if U[k] <= u:
            i = k
    return i


def multiplicity(U, u):
    return sum(1 for k in U if k == u)


def nonempty_spans(p, U):
    n = len(U) - p - 1
    return [i for i in range(p, n) if U[i] < U[i + 1]]


# ----------------------------------------------------------------------------------------
# basis functions
# ----------------------------------------------------------------------------------------

def N_rec(i, p, U, u, at_end=False):
    """Cox-de Boor value by plain recursion, half-open convention; at_end=True gives the left limit
    at the domain end (used only for self tests and C03)."""
    if p == 0:
        if U[i] <= u < U[i + 1]:
            return F(1)
        if at_end and U[i] < U[i + 1] and u == U[i + 1]:
            return F(1)
        return F(0)
    a = F(0)
    if U[i + p] != U[i]:
        a = (u - U[i]) / (U[i + p] - U[i]) * N_rec(i, p - 1, U, u, at_end)
    b = F(0)
    if U[i + p + 1] != U[i + 1]:
        b = (U[i + p + 1] - u) / (U[i + p + 1] - U[i + 1]) * N_rec(i + 1, p - 1, U, u, at_end)
    return a + b


@lru_cache(maxsize=200000)
def basis_polys(p, U, s):
    """polynomials (ascending coefficient tuples) of N_{s-p..s, p} restricted to span s"""
    polys = {s: (F(1),)}
    for k in range(1, p + 1):
        new = {}
        for i in range(s - k, s + 1):
            acc = [F(0)] * (k + 1)
            a = polys.get(i)
            if a is not None and U[i + k] != U[i]:
                d = U[i + k] - U[i]
                for j, c in enumerate(a):
                    acc[j + 1] += c / d
                    acc[j] -= U[i] * c / d
            b = polys.get(i + 1)
            if b is not None and U[i + k + 1] != U[i + 1]:
                d = U[i + k + 1] - U[i + 1]
                for j, c in enumerate(b):
                    acc[j] += U[i + k + 1] * c / d
                    acc[j + 1] -= c / d
            new[i] = tuple(acc)
        polys = new
    return tuple(polys[i] for i in range(s - p, s + 1))


def poly_eval(c, u):
    r = F(0)
    for a in reversed(c):
        r = r * u + a
    return r


def poly_der(c, k=1):
    c = list(c)
    for _ in range(k):
        c = [j * c[j] for j in range(1, len(c))]
        if not c:
            return [F(0)]
    return c


@lru_cache(maxsize=400000)
def basis_values(p, U, u, order=0):
    """(span, rows) with rows[k][j] = d^k/du^k N_{span-p+j,p}(u), k = 0..order (right derivative at
    knots, left at the domain end)"""
    s = find_span(p, U, u)
    polys = basis_polys(p, U, s)
    rows = []
    for k in range(order + 1):
        rows.append([poly_eval(poly_der(c, k), u) for c in polys])
    return s, rows


# ----------------------------------------------------------------------------------------
# shapes: definition dict  {degrees, kvs, sizes, P, rational}
#   P: flat list of tuples of Fractions (homogeneous (xw,..,w) if rational), library layout:
#      curve i; surface v + sv*u; volume v + sv*(u + su*w)
# ----------------------------------------------------------------------------------------

def flat_index(sizes, idx):
    if len(sizes) == 1:
        return idx[0]
    if len(sizes) == 2:
        return idx[1] + sizes[1] * idx[0]
    return idx[1] + sizes[1] * (idx[0] + sizes[0] * idx[2])


def shape_def(degrees, kvs, sizes, P, rational):
    return dict(degrees=tuple(degrees), kvs=tuple(tuple(fr(k) for k in kv) for kv in kvs),
                sizes=tuple(sizes), P=[frv(p) for p in P], rational=bool(rational))


def def_from_obj(obj):
    """exact definition of a geomdl spline object, through public attributes only"""
    pd = obj.pdimension
    if pd == 1:
        degrees, kvs, sizes = [obj.degree], [obj.knotvector], [obj.ctrlpts_size]
    else:
        degrees, kvs = list(obj.degree), list(obj.knotvector)
        sizes = [obj.ctrlpts_size_u, obj.ctrlpts_size_v] + ([obj.ctrlpts_size_w] if pd == 3 else [])
    P = obj.ctrlptsw if obj.rational else obj.ctrlpts
    return shape_def(degrees, kvs, sizes, P, obj.rational)


def _homog_derivs(d, params, order):
    """all mixed derivative values of the homogeneous tensor-product sum up to total `order`
    (per-direction order capped by `order`): dict {(k0,k1,..): tuple}"""
    pd = len(d['degrees'])
    spans, rows = [], []
    for a in range(pd):
        s, r = basis_values(d['degrees'][a], d['kvs'][a], params[a], order)
        spans.append(s)
        rows.append(r)
    dim = len(d['P'][0])
    out = {}

    def rec(a, ks):
        if a == pd:
            if sum(ks) <= order:
                out[tuple(ks)] = None
            return
        for k in range(order + 1):
            rec(a + 1, ks + [k])
    rec(0, [])
    deg = d['degrees']
    ranges = [range(deg[a] + 1) for a in range(pd)]
    # collect active points once
    import itertools
    act = []
    for js in itertools.product(*ranges):
        idx = [spans[a] - deg[a] + js[a] for a in range(pd)]
        act.append((js, d['P'][flat_index(d['sizes'], idx)]))
    for ks in out:
        acc = [F(0)] * dim
        for js, pt in act:
            c = F(1)
            for a in range(pd):
                c *= rows[a][ks[a]][js[a]]
                if c == 0:
                    break
            if c != 0:
                for t in range(dim):
                    acc[t] += c * pt[t]
        out[ks] = tuple(acc)
    return out


def eval_point(d, params):
    """exact point of the shape at params (tuple of Fractions)"""
    params = tuple(fr(x) for x in params)
    h = _homog_derivs(d, params, 0)[tuple([0] * len(params))]
    if d['rational']:
        return tuple(c / h[-1] for c in h[:-1])
    return h


def eval_derivs(d, params, order):
    """dict {(k,..): exact derivative vector} for all multi-indices with total <= order"""
    params = tuple(fr(x) for x in params)
    H = _homog_derivs(d, params, order)
    if not d['rational']:
        return H
    pd = len(params)
    dim = len(d['P'][0]) - 1
    # Taylor coefficients a = A^(k)/k!, w likewise; c = a / w as multivariate power series
    def fact(ks):
        r = 1
        for k in ks:
            r *= factorial(k)
        return r
    a = {ks: tuple(x / fact(ks) for x in v[:-1]) for ks, v in H.items()}
    w = {ks: v[-1] / fact(ks) for ks, v in H.items()}
    keys = sorted(H.keys(), key=lambda ks: (sum(ks), ks))
    c = {}
    zero = tuple([0] * pd)
    for ks in keys:
        acc = list(a[ks])
        for js in keys:
            if js == zero:
                continue
            if all(j <= k for j, k in zip(js, ks)):
                rest = tuple(k - j for j, k in zip(js, ks))
                cv = c[rest]
                for t in range(dim):
                    acc[t] -= w[js] * cv[t]
        c[ks] = tuple(x / w[zero] for x in acc)
    return {ks: tuple(x * fact(ks) for x in v) for ks, v in c.items()}


def corner_params(d):
    return [domain(p, U) for p, U in zip(d['degrees'], d['kvs'])]


# ----------------------------------------------------------------------------------------
# Bernstein / Bezier
# ----------------------------------------------------------------------------------------

def binom(n, k):
    if k < 0 or k > n:
        return 0
    return factorial(n) // (factorial(k) * factorial(n - k))


def bezier_point(P, t):
    n = len(P) - 1
    dim = len(P[0])
    acc = [F(0)] * dim
    for i, pt in enumerate(P):
        b = binom(n, i) * t ** i * (1 - t) ** (n - i)
        for k in range(dim):
            acc[k] += b * pt[k]
    return tuple(acc)


def bezier_elevate(P, t):
    """exact degree elevation by t (definition: the unique degree n+t polygon of the same curve)"""
    n = len(P) - 1
    dim = len(P[0])
    out = []
    for i in range(n + t + 1):
        acc = [F(0)] * dim
        for j in range(max(0, i - t), min(n, i) + 1):
            c = F(binom(n, j) * binom(t, i - j), binom(n + t, i))
            for k in range(dim):
                acc[k] += c * P[j][k]
        out.append(tuple(acc))
    return out


# ----------------------------------------------------------------------------------------
# exact linear algebra
# ----------------------------------------------------------------------------------------

def det_leibniz(A):
    n = len(A)
    tot = F(0)
    for perm in permutations(range(n)):
        sign = 1
        for i in range(n):
            for j in range(i + 1, n):
                if perm[i] > perm[j]:
                    sign = -sign
        prod = F(sign)
        for i in range(n):
            prod *= A[i][perm[i]]
            if prod == 0:
                break
        tot += prod
    return tot


def det_gauss(A):
    A = [[fr(x) for x in r] for r in A]
    n = len(A)
    det = F(1)
    for c in range(n):
        piv = None
        for r in range(c, n):
            if A[r][c] != 0:
                piv = r
                break
        if piv is None:
            return F(0)
        if piv != c:
            A[c], A[piv] = A[piv], A[c]
            det = -det
        det *= A[c][c]
        for r in range(c + 1, n):
            f = A[r][c] / A[c][c]
            if f != 0:
                for k in range(c, n):
                    A[r][k] -= f * A[c][k]
    return det


def solve_exact(A, B):
    """solve A X = B (B: n x m) exactly; returns None if singular"""
    n = len(A)
    m = len(B[0])
    M = [[fr(x) for x in A[i]] + [fr(x) for x in B[i]] for i in range(n)]
    for c in range(n):
        piv = None
        for r in range(c, n):
            if M[r][c] != 0:
                piv = r
                break
        if piv is None:
            return None
        M[c], M[piv] = M[piv], M[c]
        pv = M[c][c]
        M[c] = [x / pv for x in M[c]]
        for r in range(n):
            if r != c and M[r][c] != 0:
                f = M[r][c]
                M[r] = [x - f * y for x, y in zip(M[r], M[c])]
    return [row[n:] for row in M]


def matmul(A, B):
    return [[sum((fr(A[i][k]) * fr(B[k][j]) for k in range(len(B))), F(0)) for j in range(len(B[0]))]
            for i in range(len(A))]


def needs_row_swap_doolittle(A):
    """True iff plain (no pivoting) Doolittle elimination meets a zero pivot"""
    A = [[fr(x) for x in r] for r in A]
    n = len(A)
    for c in range(n):
        if A[c][c] == 0:
            return True
        for r in range(c + 1, n):
            f = A[r][c] / A[c][c]
            for k in range(c, n):
                A[r][k] -= f * A[c][k]
    return False


# ----------------------------------------------------------------------------------------
# planar predicates
# ----------------------------------------------------------------------------------------

def orient(a, b, c):
    return (b[0] - a[0]) * (c[1] - a[1]) - (c[0] - a[0]) * (b[1] - a[1])


def on_segment(a, b, p):
    if orient(a, b, p) != 0:
        return False
    return min(a[0], b[0]) <= p[0] <= max(a[0], b[0]) and min(a[1], b[1]) <= p[1] <= max(a[1], b[1])


def winding_number(pt, poly):
    """exact winding number of closed polygon `poly` (without repeated last vertex) around pt;
    pt must not be on the boundary"""
    wn = 0
    n = len(poly)
    for i in range(n):
        a, b = poly[i], poly[(i + 1) % n]
        if a[1] <= pt[1]:
            if b[1] > pt[1] and orient(a, b, pt) > 0:
                wn += 1
        else:
            if b[1] <= pt[1] and orient(a, b, pt) < 0:
                wn -= 1
    return wn


def point_in_polygon_crossing(pt, poly):
    """independent even-odd test by exact ray casting along +x (pt not on boundary)"""
    inside = False
    n = len(poly)
    for i in range(n):
        a, b = poly[i], poly[(i + 1) % n]
        if (a[1] > pt[1]) != (b[1] > pt[1]):
            xint = fr(a[0]) + F(pt[1] - a[1]) * F(b[0] - a[0]) / F(b[1] - a[1])
            if xint > pt[0]:
                inside = not inside
    return inside


def segments_properly_or_improperly_intersect(a, b, c, d):
    o1, o2 = orient(a, b, c), orient(a, b, d)
    o3, o4 = orient(c, d, a), orient(c, d, b)
    if ((o1 > 0) != (o2 > 0)) and o1 != 0 and o2 != 0 and ((o3 > 0) != (o4 > 0)) and o3 != 0 and o4 != 0:
        return True
    return on_segment(a, b, c) or on_segment(a, b, d) or on_segment(c, d, a) or on_segment(c, d, b)


def is_simple_polygon(poly):
    n = len(poly)
    if n < 3 or len(set(poly)) != n:
        return False
    for i in range(n):
        a, b = poly[i], poly[(i + 1) % n]
        for j in range(i + 1, n):
            c, d = poly[j], poly[(j + 1) % n]
            if j == i + 1 or (i == 0 and j == n - 1):
                # adjacent edges: only allowed to share the common vertex, not overlap
                shared = b if j == i + 1 else a
                other1 = a if j == i + 1 else b
                other2 = d if j == i + 1 else c
                if orient(other1, shared, other2) == 0:
                    # collinear: overlap iff other1 and other2 on the same side of shared
                    v1 = (other1[0] - shared[0], other1[1] - shared[1])
                    v2 = (other2[0] - shared[0], other2[1] - shared[1])
                    if v1[0] * v2[0] + v1[1] * v2[1] > 0:
                        return False
                continue
            if segments_properly_or_improperly_intersect(a, b, c, d):
                return False
    area2 = sum(poly[i][0] * poly[(i + 1) % n][1] - poly[(i + 1) % n][0] * poly[i][1] for i in range(n))
    return area2 != 0


def polygon_area2(poly):
    n = len(poly)
    return sum(poly[i][0] * poly[(i + 1) % n][1] - poly[(i + 1) % n][0] * poly[i][1] for i in range(n))


def hull_contains(hull, pt):
    """pt inside or on the ccw convex polygon hull (len >= 3) -- exact"""
    n = len(hull)
    return all(orient(hull[i], hull[(i + 1) % n], pt) >= 0 for i in range(n))


# ----------------------------------------------------------------------------------------
# exact knot insertion (Boehm) - a reference *algorithm*, validated against the definition in
# self_test(); used as a cheap exact state oracle for insertion/removal histories
# ----------------------------------------------------------------------------------------

def _insert_row(p, U, row, u):
    k = find_span(p, U, u)
    s = multiplicity(U, u)
    n = len(row)
    out = []
    for i in range(n + 1):
        if i <= k - p:
            out.append(row[i])
        elif i >= k - s + 1:
            out.append(row[i - 1])
        else:
            a = (u - U[i]) / (U[i + p] - U[i])
            out.append(tuple(a * x + (1 - a) * y for x, y in zip(row[i], row[i - 1])))
    return out


def insert_knot_exact(d, direction, u, r=1):
    """exact definition after inserting u r times in `direction` (0,1,2)"""
    import itertools
    u = fr(u)
    for _ in range(r):
        p = d['degrees'][direction]
        U = d['kvs'][direction]
        sizes = list(d['sizes'])
        k = find_span(p, U, u)
        newU = U[:k + 1] + (u,) + U[k + 1:]
        new_sizes = list(sizes)
        new_sizes[direction] += 1
        total = 1
        for x in new_sizes:
            total *= x
        newP = [None] * total
        others = [range(sizes[a]) for a in range(len(sizes)) if a != direction]
        for rest in itertools.product(*others):
            def full(i):
                idx = list(rest)
                idx.insert(direction, i)
                return idx
            row = [d['P'][flat_index(sizes, full(i))] for i in range(sizes[direction])]
            new_row = _insert_row(p, U, row, u)
            for i, pt in enumerate(new_row):
                newP[flat_index(new_sizes, full(i))] = pt
        kvs = list(d['kvs'])
        kvs[direction] = newU
        d = dict(degrees=d['degrees'], kvs=tuple(kvs), sizes=tuple(new_sizes), P=newP, rational=d['rational'])
    return d


def refine_to(d, target_kvs):
    """exact definition of d on the finer knot vectors target_kvs (each a super-multiset of d's); None if not finer"""
    for a, tk in enumerate(target_kvs):
        tk = [fr(x) for x in tk]
        cur = list(d['kvs'][a])
        for val in sorted(set(tk)):
            need = sum(1 for x in tk if x == val) - sum(1 for x in cur if x == val)
            if need < 0:
                return None
            if need > 0:
                d = insert_knot_exact(d, a, val, need)
        if list(d['kvs'][a]) != sorted(tk):
            return None
    return d


# ----------------------------------------------------------------------------------------
# self test (run by setup and by every check start, cheap)
# ----------------------------------------------------------------------------------------

def self_test():
    U = tuple(F(x) for x in (0, 0, 0, 0, F(1, 4), F(1, 2), F(1, 2), 1, 1, 1, 1))
    p = 3
    n = len(U) - p - 1
    for u in (F(0), F(1, 8), F(1, 4), F(1, 3), F(1, 2), F(7, 8), F(1)):
        s, rows = basis_values(p, U, u, 3)
        assert sum(rows[0]) == 1
        for k in (1, 2, 3):
            assert sum(rows[k]) == 0
        for j in range(p + 1):
            assert rows[0][j] == N_rec(s - p + j, p, U, u, at_end=(u == U[n])), (u, j)
            assert rows[0][j] >= 0
        for i in range(n):
            if not (s - p <= i <= s):
                assert N_rec(i, p, U, u, at_end=(u == U[n])) == 0
    # rational circle quarter: x^2+y^2 = 1, derivative orthogonal to radius
    w = F(1, 2)
    d = shape_def([2], [[0, 0, 0, 1, 1, 1]], [3], [(1, 0, 1), (w, w, w), (0, 2, 2)], True)
    for u in (F(0), F(1, 3), F(1, 2), F(1)):
        pt = eval_point(d, (u,))
        D = eval_derivs(d, (u,), 2)
        # ellipse-free sanity: C' equals numeric quotient rule
        H = _homog_derivs(d, (u,), 1)
        A0, A1 = H[(0,)], H[(1,)]
        for t in range(2):
            assert D[(1,)][t] == (A1[t] * A0[2] - A0[t] * A1[2]) / (A0[2] ** 2)
        assert D[(0,)] == pt
    assert det_leibniz([[1, 1, 0], [1, 1, 1], [0, 1, 1]]) == -1 == det_gauss([[1, 1, 0], [1, 1, 1], [0, 1, 1]])
    X = solve_exact([[2, 1], [1, 3]], [[1, 0], [0, 1]])
    assert matmul([[2, 1], [1, 3]], X) == [[1, 0], [0, 1]]
    assert bezier_point(bezier_elevate([(F(0), F(0)), (F(1), F(2)), (F(3), F(1))], 2), F(1, 3)) == \
        bezier_point([(F(0), F(0)), (F(1), F(2)), (F(3), F(1))], F(1, 3))
    # exact knot insertion agrees with the definition (surface, both directions, repeated knot)
    sd = shape_def([2, 1], [[0, 0, 0, F(1, 2), 1, 1, 1], [0, 0, F(1, 4), 1, 1]], [4, 3],
                   [(7 * i + 2 * j * j, i * i - 3 * j, 1 + ((2 * i + 3 * j) % 4)) for i in range(4) for j in range(3)], True)
    sd2 = insert_knot_exact(insert_knot_exact(sd, 0, F(1, 2), 1), 1, F(1, 3), 1)
    assert sd2['sizes'] == (5, 4)
    for uu in (F(0), F(1, 4), F(1, 2), F(5, 7), F(1)):
        for vv in (F(0), F(1, 3), F(9, 10), F(1)):
            assert eval_point(sd, (uu, vv)) == eval_point(sd2, (uu, vv))
    assert refine_to(sd, sd2['kvs'])['P'] == sd2['P']
    sq = [(0, 0), (2, 0), (2, 2), (0, 2)]
    assert winding_number((1, 1), sq) == 1 and point_in_polygon_crossing((1, 1), sq)
    assert winding_number((3, 1), sq) == 0 and not point_in_polygon_crossing((3, 1), sq)
    assert is_simple_polygon(sq) and not is_simple_polygon([(0, 0), (2, 2), (2, 0), (0, 2)])
    return True


if __name__ == '__main__':
    self_test()
    print("refmodel self test ok")

"""E3 - schedule explorer for the library's only concurrency: multiprocessing.Pool.map reached
through geomdl._utilities.pool_context.

Worker processes share nothing, results are reassembled by index, so the whole observable
nondeterminism of Pool.map is *which worker executes which chunk* (every worker sees its chunks in
increasing index order).  VirtualPool is installed at the seam by assigning
geomdl._utilities.Pool; one `map` call with n chunks on k workers is driven through a given set
partition of the chunks into <= k blocks.  Each block runs, in index order, in a freshly forked
real process (process-global state such as lru_caches and module globals really is per worker and
really accumulates across the chunks of one worker); arguments and results cross a pipe pickled,
as with the real pool.
"""
import itertools
import os
import pickle
import sys
import traceback


def set_partitions(n, k, max_dev=None):
    """all partitions of range(n) into at most k blocks, as restricted-growth strings a[0..n-1]
    (a[i] = block of chunk i; blocks numbered by first appearance = worker that takes it first);
    with max_dev only those with at most max_dev chunks outside block 0 (pruned during generation)"""
    def rec(i, a, m, dev):
        if i == n:
            yield tuple(a)
            return
        for b in range(min(m + 1, k)):
            d = dev + (1 if b != 0 else 0)
            if max_dev is not None and d > max_dev:
                continue
            a.append(b)
            for x in rec(i + 1, a, max(m, b + 1), d):
                yield x
            a.pop()
    if n == 0:
        yield ()
        return
    for x in rec(0, [], 0, 0):
        yield x


def deviations(assign):
    """CHESS-style cost: number of chunks not executed by worker 0 (default schedule = all on worker 0)"""
    return sum(1 for b in assign if b != 0)


def cpython_chunks(n_items, n_procs, chunksize=None):
    """how multiprocessing.Pool.map batches an iterable of known length (CPython Pool._map_async)"""
    if chunksize is None:
        chunksize, extra = divmod(n_items, n_procs * 4)
        if extra:
            chunksize += 1
    if n_items == 0:
        chunksize = 0
    if chunksize <= 0:
        return []
    return [list(range(i, min(i + chunksize, n_items))) for i in range(0, n_items, chunksize)]


class Schedule(object):
    """decides, per map call, the chunk->worker assignment; records what it saw"""

    def __init__(self, chooser):
        self.chooser = chooser          # fn(call_index, n_chunks, n_procs) -> tuple assignment
        self.calls = []                 # (n_items, n_chunks, n_procs, assignment)


_CURRENT = {'schedule': None}


def _run_block(func, items, star):
    out = []
    for it in items:
        out.append(func(*it) if star else func(it))
    return out


class VirtualPool(object):
    def __init__(self, processes=None, *args, **kwargs):
        self._n = processes or os.cpu_count() or 1
        self._closed = False

    # -- context manager API (pool_context uses terminate only) --------------------------
    def __enter__(self):
        return self

    def __exit__(self, *a):
        self.terminate()

    def terminate(self):
        self._closed = True

    def close(self):
        self._closed = True

    def join(self):
        pass

    # -- mapping primitives ----------------------------------------------------------------
    def _execute(self, func, iterable, chunksize, star=False):
        items = list(iterable)
        chunks = cpython_chunks(len(items), self._n, chunksize)
        sched = _CURRENT['schedule']
        if sched is None:
            assign = tuple([0] * len(chunks))
        else:
            assign = sched.chooser(len(sched.calls), len(chunks), self._n)
            sched.calls.append((len(items), len(chunks), self._n, assign))
        if len(assign) != len(chunks) or any(b >= self._n for b in assign):
            raise RuntimeError("schedule %r does not fit %d chunks on %d workers" % (assign, len(chunks), self._n))
        results = [None] * len(items)
        for worker in sorted(set(assign)):
            mine = [ci for ci, b in enumerate(assign) if b == worker]
            idxs = [i for ci in mine for i in chunks[ci]]
            # arguments cross a pickle boundary exactly as with the real pool
            payload = pickle.dumps((func, [items[i] for i in idxs], star))
            r, w = os.pipe()
            pid = os.fork()
            if pid == 0:
                code = 0
                try:
                    os.close(r)
                    f, its, st = pickle.loads(payload)
                    try:
                        res = ('ok', _run_block(f, its, st))
                    except BaseException as e:      # propagate like Pool does
                        res = ('err', (type(e).__name__, str(e), traceback.format_exc()[-800:]))
                    data = pickle.dumps(res)
                    with os.fdopen(w, 'wb') as fh:
                        fh.write(data)
                except BaseException:
                    code = 3
                finally:
                    os._exit(code)
            os.close(w)
            with os.fdopen(r, 'rb') as fh:
                data = fh.read()
            os.waitpid(pid, 0)
            if not data:
                raise RuntimeError("virtual worker died")
            status, val = pickle.loads(data)
            if status == 'err':
                raise RuntimeError("worker raised %s: %s" % (val[0], val[1]))
            for i, v in zip(idxs, val):
                results[i] = v
        return results

    def map(self, func, iterable, chunksize=None):
        return self._execute(func, iterable, chunksize)

    def starmap(self, func, iterable, chunksize=None):
        return self._execute(func, iterable, chunksize, star=True)

    def imap(self, func, iterable, chunksize=1):
        return iter(self._execute(func, iterable, chunksize))

    def imap_unordered(self, func, iterable, chunksize=1):
        """completion order is part of the schedule: the chooser may attach a permutation via
        schedule.unordered(call_index, n) ; default = reversed order (a legal completion order)"""
        res = self._execute(func, iterable, chunksize)
        sched = _CURRENT['schedule']
        perm = None
        if sched is not None and hasattr(sched, 'unordered'):
            perm = sched.unordered(len(sched.calls) - 1, len(res))
        if perm is None:
            perm = list(reversed(range(len(res))))
        return iter([res[i] for i in perm])

    def apply(self, func, args=(), kwds=None):
        return self._execute(lambda a: func(*a, **(kwds or {})), [args], 1)[0]

    def map_async(self, func, iterable, chunksize=None, callback=None, error_callback=None):
        res = self._execute(func, iterable, chunksize)

        class _R(object):
            def get(self, timeout=None):
                return res

            def wait(self, timeout=None):
                pass

            def ready(self):
                return True

            def successful(self):
                return True
        if callback:
            callback(res)
        return _R()


class installed(object):
    """context manager: install the virtual pool at the library seam with a schedule"""

    def __init__(self, schedule):
        self.schedule = schedule

    def __enter__(self):
        import geomdl._utilities as U
        self._U = U
        self._old = U.Pool
        U.Pool = VirtualPool
        _CURRENT['schedule'] = self.schedule
        return self.schedule

    def __exit__(self, *a):
        self._U.Pool = self._old
        _CURRENT['schedule'] = None


def explore(run, max_deviations=None, cap=None, full_if_chunks_le=8, big_call_deviations=2):
    """Stateless exploration of every schedule of a driver `run()` that performs map calls through the
    seam.  The first execution uses the default schedule (everything on worker 0) and discovers the
    call structure; then every combination of per-call partitions is enumerated (deviation-bounded if
    max_deviations is given).  Yields (assignments, result)."""
    probe = Schedule(lambda ci, nc, k: tuple([0] * nc))
    with installed(probe):
        base = run()
    shape = [(nc, k) for (_, nc, k, _) in probe.calls]
    yield tuple(tuple([0] * nc) for nc, k in shape), base
    # complete enumeration for calls with few chunks, deviation-bounded generation (CHESS style) for large ones
    per_call = [list(set_partitions(nc, k, max_deviations if (max_deviations is not None or nc <= full_if_chunks_le)
                                    else big_call_deviations)) for nc, k in shape]
    bounded = [nc for nc, k in shape if max_deviations is None and nc > full_if_chunks_le]
    count = 0
    for combo in itertools.product(*per_call):
        if all(deviations(a) == 0 for a in combo):
            continue
        if max_deviations is not None and sum(deviations(a) for a in combo) > max_deviations:
            continue
        if cap is not None and count >= cap:
            return
        count += 1
        sched = Schedule(lambda ci, nc, k, combo=combo: combo[ci])
        with installed(sched):
            res = run()
        got_shape = [(nc, k) for (_, nc, k, _) in sched.calls]
        if got_shape != shape:
            raise RuntimeError("map-call structure changed under a schedule: %r vs %r" % (got_shape, shape))
        yield combo, res

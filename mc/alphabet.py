"""Finite alphabets (DESIGN §2.1), all ordered simplest-first, all JSON-serialisable.

Knot values are dyadic rationals so that floats, span midpoints and normalisation are exact.
"""
import itertools
import random
from fractions import Fraction as F


# ----------------------------------------------------------------------------------------
# knot vectors
# ----------------------------------------------------------------------------------------

def clamped_kv(p, interior):
    """interior: list of (value, multiplicity)"""
    kv = [0.0] * (p + 1)
    for val, m in sorted(interior):
        kv += [float(val)] * m
    kv += [1.0] * (p + 1)
    return kv


def clamped_kvs(p, B, G, max_mult=None):
    """K(p,B,G): every clamped vector whose interior breakpoints are <= B distinct values of
    {1/G..(G-1)/G}, each with every multiplicity 1..p"""
    vals = [i / float(G) for i in range(1, G)]
    mm = max_mult or p
    out = []
    for b in range(0, B + 1):
        for sub in itertools.combinations(vals, b):
            for mults in itertools.product(range(1, mm + 1), repeat=b):
                out.append(clamped_kv(p, list(zip(sub, mults))))
    return out


def rep_kvs(p, level=2):
    """K'(p): per-direction representatives for tensor products"""
    reps = [[], [(0.5, 1)], [(0.25, 1)]]
    if level >= 1:
        if p >= 2:
            reps.append([(0.5, 2)])
        if p >= 3:
            reps.append([(0.5, p)])
        elif p == 2:
            pass
        reps.append([(0.25, 1), (0.5, 1)])
    if level >= 2:
        if p >= 2:
            reps.append([(0.25, 1), (0.5, 2)])
            reps.append([(0.25, p), (0.75, 1)])
        reps.append([(0.25, 1), (0.5, 1), (0.75, 1)])
    seen, out = set(), []
    for r in reps:
        kv = clamped_kv(p, r)
        if tuple(kv) not in seen:
            seen.add(tuple(kv))
            out.append(kv)
    return out


def uniform_kv(p, n):
    """clamped, n control points, equally spaced interior knots (what knotvector.generate returns)"""
    m = n - p
    return [0.0] * (p + 1) + [i / float(m) for i in range(1, m)] + [1.0] * (p + 1)


def tall_kvs(level=1, degrees=(1, 2, 3, 4, 5, 6), counts=None):
    """T: the 'tall thin slice' - few knot vectors, but degrees up to 6 and up to 12 (level 2: 20) control points per
    direction, so that code paths which only differ for large degree / long knot vectors are entered.  Per degree p:
    Bezier (p >= 4 only, the small degrees have it in K), uniform clamped vectors with 7, 9, 12 control points and one
    vector with 9 control points whose interior knots are dyadic with multiplicities 2,1,2,1.. (as far as they fit).
    Returns [(p, kv)] simplest first."""
    out = []
    cnts = counts or ((7, 9, 12) if level < 2 else (7, 8, 9, 10, 12, 16, 20))
    for p in degrees:
        if p >= 4:
            out.append((p, clamped_kv(p, [])))
        for n in cnts:
            if n > p + 1:
                out.append((p, uniform_kv(p, n)))
        need = 9 - p - 1
        if p >= 2 and need >= 2:
            interior, vals, i = [], [0.25, 0.5, 0.75, 0.125, 0.875, 0.375, 0.625], 0
            while need > 0:
                m = min(2 if i % 2 == 0 else 1, p, need)
                interior.append((vals[i], m))
                need -= m
                i += 1
            out.append((p, clamped_kv(p, interior)))
    return out


def unclamped_kvs(p, n):
    """unclamped alphabets for n control points: integer-uniform, left-clamped-only, right-clamped-only.
    End knots of the *domain* keep multiplicity < p on the unclamped side (DESIGN C03)."""
    m = n + p + 1
    out = []
    uni = [float(i) for i in range(m)]
    out.append(uni)
    # left clamped only: p+1 zeros then uniform
    out.append([0.0] * (p + 1) + [float(i) for i in range(1, m - p)])
    # right clamped only
    last = float(m - p - 1)
    out.append([float(i) for i in range(0, m - p - 1)] + [last] * (p + 1))
    return out


AFFINE = [(0.0, 1.0), (0.0, 2.0), (1.0, 2.0), (-1.0, 4.0), (2.0, 0.5)]


def affine_kv(kv, a, s):
    return [a + s * k for k in kv]


# ----------------------------------------------------------------------------------------
# parameters
# ----------------------------------------------------------------------------------------

def params_for(p, kv, per_span=None, extras=True):
    """every distinct knot of the domain, both ends, per non-empty span `per_span` dyadic interior
    points (default p+1), plus two non-dyadic witnesses"""
    n = len(kv) - p - 1
    lo, hi = kv[p], kv[n]
    m = per_span if per_span is not None else p + 1
    out = []
    k = 1
    while (1 << k) <= m:
        k += 1
    den = float(1 << k)
    for i in range(p, n):
        a, b = kv[i], kv[i + 1]
        if a < b:
            out.append(a)
            for j in range(1, m + 1):
                out.append(a + (b - a) * (j / den))
    out.append(hi)
    if extras:
        out.append(lo + (hi - lo) / 3.0)
        out.append(lo + (hi - lo) * 0.875)
    seen, res = set(), []
    for u in out:
        if u not in seen and lo <= u <= hi:
            seen.add(u)
            res.append(u)
    return res


def few_params(p, kv):
    """reduced set for tensor products: ends, interior knots, one midpoint per span, 1/3"""
    return params_for(p, kv, per_span=1, extras=False) + [kv[p] + (kv[len(kv) - p - 1] - kv[p]) / 3.0]


# ----------------------------------------------------------------------------------------
# control nets (library layout: v fastest, then u, then w)
# ----------------------------------------------------------------------------------------

def _coded(i, j, k, dim):
    c = [7 * i + 2 * j * j + k ** 3, i * i - 3 * j + 5 * k, 2 * i - j + 4 * k + i * j, i + 2 * j + 3 * k + 1, i * k - j + 2]
    return [float(x) for x in c[:dim]]


def indices(sizes):
    """(i,j,k) in flat library order"""
    if len(sizes) == 1:
        return [(i, 0, 0) for i in range(sizes[0])]
    if len(sizes) == 2:
        return [(i, j, 0) for i in range(sizes[0]) for j in range(sizes[1])]
    return [(i, j, k) for k in range(sizes[2]) for i in range(sizes[0]) for j in range(sizes[1])]


def make_net(sizes, dim, kind, seed=0):
    idx = indices(sizes)
    if kind == 'coded':
        return [_coded(i, j, k, dim) for i, j, k in idx]
    if kind.startswith('unit:'):
        m = int(kind.split(':')[1])
        net = [[0.0] * dim for _ in idx]
        net[m] = [1.0] + [2.0] * (dim - 1)
        return net
    if kind == 'seeded':
        rnd = random.Random(seed * 7919 + len(idx) * 31 + dim)
        return [[float(rnd.randint(-9, 9)) for _ in range(dim)] for _ in idx]
    # ---- data variety (DESIGN §6 wave 5): the same coded net under maps that leave the small-integer world
    base = [_coded(i, j, k, dim) for i, j, k in idx]
    if kind == 'negfrac':       # negative and fractional, not dyadic
        return [[-0.37 * c + 0.1 * (m + 1) for m, c in enumerate(p)] for p in base]
    if kind == 'large':         # 1e6 .. 1e8
        return [[1.0e6 * c + 1.0e7 for c in p] for p in base]
    if kind == 'tiny':          # 1e-6
        return [[1.0e-6 * c for c in p] for p in base]
    if kind == 'zeroplane':     # first coordinate exactly 0.0 (one -0.0), the others as coded
        out = [[0.0] + p[1:] for p in base]
        out[len(out) // 2][0] = -0.0
        return out
    if kind == 'coincident':    # the first two and the last two control points coincide
        out = [list(p) for p in base]
        if len(out) >= 4:
            out[1] = list(out[0])
            out[-2] = list(out[-1])
        return out
    if kind == 'closed':        # closed polygon: the last control point repeats the first (none of them at the origin)
        out = [[c + 1.0 for c in p] for p in base]
        out[-1] = list(out[0])
        return out
    if kind == 'collinear':     # all control points on one line, not equally spaced
        return [[float(n * n + 1) * (m + 1) for m in range(dim)] for n in range(len(idx))]
    raise ValueError(kind)


VARIETY_NETS = ['negfrac', 'large', 'tiny', 'zeroplane', 'coincident', 'closed', 'collinear']
VARIETY_WEIGHTS = ['extreme', 'equal5', 'smallw']


def odd_kvs(p, level=1):
    """knot vectors outside the dyadic unit-interval world, as (kv, normalize_kv) pairs: decimal and 1/7 knot values,
    ranges far from [0,1] kept as given, a very short range; one interior knot structure with a repeated knot each"""
    def kv(lo, hi, fr):
        return [lo] * (p + 1) + [lo + (hi - lo) * f for f in fr] + [hi] * (p + 1)
    fr1 = [0.1, 0.3, 0.7][:max(1, min(3, p + 1))]
    fr2 = [1.0 / 7.0, 3.0 / 7.0] + ([3.0 / 7.0] if p >= 2 else [])
    out = [(kv(0.0, 1.0, fr1), True), (kv(0.0, 1.0, fr2), True),
           (kv(-5.0, -1.0, fr1), False), (kv(100.0, 200.0, fr2), False), (kv(0.0, 1.0e-3, [0.5, 0.5] if p >= 2 else [0.5]), False)]
    if level >= 2:
        # (a vector with normalize_kv=True is always given on [0,1] here: the harnesses take parameters from the descriptor)
        out += [(kv(0.0, 1.0, [0.2, 0.55, 0.9][:max(1, min(3, p + 1))]), True), (kv(-5.0, -1.0, fr2), False), (kv(0.0, 3.0, [0.3, 0.57]), False)]
    return out


def make_weights(sizes, kind, seed=0):
    idx = indices(sizes)
    if kind == 'ones':
        return [1.0] * len(idx)
    if kind == 'coded':
        return [1.0 + ((2 * i + 3 * j + 5 * k) % 4) / 2.0 for i, j, k in idx]
    if kind == 'spike':
        w = [1.0] * len(idx)
        w[len(idx) // 2] = 8.0
        return w
    if kind == 'le1':
        # all <= 1, the first one equal to 1 (circular arcs: 1, sqrt(2)/2, 1)
        return [1.0 if n % 2 == 0 else 0.5 for n in range(len(idx))]
    if kind == 'seeded':
        rnd = random.Random(seed * 104729 + len(idx))
        return [rnd.choice([0.25, 0.5, 1.0, 2.0, 3.0]) for _ in idx]
    if kind == 'mean1':         # not uniform, but the deviations from 1 cancel: the mean is exactly 1
        return [[0.5, 1.5, 1.0, 1.0][n % 4] for n in range(len(idx) - len(idx) % 4)] + [1.0] * (len(idx) % 4)
    if kind == 'arc':           # tensor product of circular-arc weights 1, sqrt(2)/2, 1 (mixed weight derivatives vanish on midlines)
        r = 0.5 ** 0.5
        return [(r if i % 2 else 1.0) * (r if j % 2 else 1.0) * (r if k % 2 else 1.0) for i, j, k in idx]
    if kind == 'extreme':       # below 0.1 and above 100
        return [[0.01, 250.0, 1.0, 0.07][n % 4] for n in range(len(idx))]
    if kind == 'equal5':        # all equal but not 1: the shape is polynomial, the object is rational
        return [5.0] * len(idx)
    if kind == 'smallw':        # all small, not equal
        return [1.0e-3 * (1 + (n % 3)) for n in range(len(idx))]
    raise ValueError(kind)


def unit_indices(sizes, full):
    n = 1
    for s in sizes:
        n *= s
    if full or len(sizes) == 1:
        return list(range(n))
    # corners, one edge, one interior index
    picks = {0, n - 1, sizes[1] - 1 if len(sizes) > 1 else 0, n // 2, 1}
    return sorted(x for x in picks if 0 <= x < n)


# ----------------------------------------------------------------------------------------
# shape descriptors
# ----------------------------------------------------------------------------------------

def shape_desc(kvs, degrees, rational=False, dim=3, net='coded', weights='ones', normalize_kv=True, **kw):
    sizes = [len(kv) - p - 1 for kv, p in zip(kvs, degrees)]
    d = dict(pdim=len(kvs), rational=bool(rational), degrees=list(degrees), kvs=[list(k) for k in kvs],
             sizes=sizes, dim=dim, net=net, weights=weights if rational else 'ones',
             normalize_kv=normalize_kv)
    d.update(kw)
    return d


def is_nontrivial(desc):
    """rule used for distinct_nontrivial: at least one interior knot or a non-unit weight"""
    interior = any(len(kv) > 2 * (p + 1) for kv, p in zip(desc['kvs'], desc['degrees']))
    return interior or (desc['rational'] and desc['weights'] != 'ones')

"""Shared helpers of the knot-operation properties C04 (insertion), C05 (refinement), C07 (split / decompose).

 * `grid_eval`      exact points of a definition on a Cartesian parameter grid.  It is the reference model's
                    tensor-product sum (basis values come from refmodel.basis_values) contracted one direction at a
                    time in integer arithmetic, ~20x cheaper than point-by-point `refmodel.eval_point`; every call
                    is cross-checked against `refmodel.eval_point` on two grid points (AssertionError = harness bug).
 * `same_shape`     the central oracle: definition A at parameters X equals definition B at parameters Y.
 * alphabets shared by the three properties (shapes, insertion menus).
"""
import itertools
from fractions import Fraction as F
from math import gcd

from . import alphabet as A
from . import refmodel as R

DIRN = 'uvw'
TOL = 1e-9


# ----------------------------------------------------------------------------------------
# reading objects through the public API
# ----------------------------------------------------------------------------------------

def obj_kvs(obj):
    return [list(obj.knotvector)] if obj.pdimension == 1 else [list(k) for k in obj.knotvector]


def obj_degrees(obj):
    return [obj.degree] if obj.pdimension == 1 else list(obj.degree)


def obj_sizes(obj):
    pd = obj.pdimension
    if pd == 1:
        return [obj.ctrlpts_size]
    return [obj.ctrlpts_size_u, obj.ctrlpts_size_v] + ([obj.ctrlpts_size_w] if pd == 3 else [])


def fmult(kv, u):
    """multiplicity by exact float equality (harness side; not the library's tolerance based count)"""
    return sum(1 for k in kv if k == u)


def dirs_name(dirs):
    return ''.join(DIRN[a] for a in dirs)


def prod(xs):
    r = 1
    for x in xs:
        r *= x
    return r


# ----------------------------------------------------------------------------------------
# parameters
# ----------------------------------------------------------------------------------------

def span_params(p, U, per):
    """exact parameters deciding a piecewise (rational) polynomial on knot vector U (Fractions): every distinct knot
    of the domain, both ends, and `per` dyadic-ratio interior points per non-empty span"""
    n = len(U) - p - 1
    k = 1
    while (1 << k) <= per:
        k += 1
    den = 1 << k
    out = []
    for i in range(p, n):
        a, b = U[i], U[i + 1]
        if a < b:
            out.append(a)
            for j in range(1, per + 1):
                out.append(a + (b - a) * F(j, den))
    out.append(U[n])
    seen, res = set(), []
    for u in out:
        if u not in seen:
            seen.add(u)
            res.append(u)
    return res


def param_sets(d, per_extra=0):
    """deciding parameter sets per direction for definition d: 2p+1 interior points per span if rational else p+1"""
    sets = []
    for p, U in zip(d['degrees'], d['kvs']):
        per = (2 * p + 1) if d['rational'] else (p + 1)
        sets.append(span_params(p, U, per + per_extra))
    return sets


# ----------------------------------------------------------------------------------------
# exact grid evaluation
# ----------------------------------------------------------------------------------------

def _lcm(a, b):
    return a * b // gcd(a, b)


def grid_eval(d, psets, selfcheck=True):
    """list of exact points (tuples of Fractions, None where the weight function vanishes) of definition d at
    itertools.product(*psets)"""
    pd = len(d['degrees'])
    sizes = list(d['sizes'])
    P = d['P']
    dim = len(P[0])
    assert len(P) == prod(sizes), "definition has %d control points for sizes %s" % (len(P), sizes)
    L = 1
    for pt in P:
        for c in pt:
            if c.denominator != 1:
                L = _lcm(L, c.denominator)
    cur = []
    for idx in itertools.product(*[range(s) for s in sizes]):
        pt = P[R.flat_index(sizes, idx)]
        cur.extend(int(c * L) for c in pt)
    shp = list(sizes)
    dens = []
    for a in range(pd):
        p, U = d['degrees'][a], d['kvs'][a]
        outer = prod(shp[:a])
        inner = prod(shp[a + 1:]) * dim
        na = shp[a]
        rows, den_a = [], []
        for u in psets[a]:
            s, r = R.basis_values(p, U, u, 0)
            r = r[0]
            D = 1
            for x in r:
                D = _lcm(D, x.denominator)
            rows.append((s - p, [int(x * D) for x in r]))
            den_a.append(D)
        dens.append(den_a)
        new = []
        for o in range(outer):
            base = o * na * inner
            for first, ints in rows:
                acc = None
                for j, c in enumerate(ints):
                    if c:
                        off = base + (first + j) * inner
                        seg = cur[off:off + inner]
                        if acc is None:
                            acc = [c * y for y in seg]
                        else:
                            acc = [x + c * y for x, y in zip(acc, seg)]
                if acc is None:
                    acc = [0] * inner
                new.extend(acc)
        cur = new
        shp[a] = len(psets[a])
    out = []
    rational = d['rational']
    flat = 0
    for tidx in itertools.product(*[range(n) for n in shp]):
        vec = cur[flat * dim:(flat + 1) * dim]
        flat += 1
        if rational:
            w = vec[-1]
            out.append(None if w == 0 else tuple(F(c, w) for c in vec[:-1]))
        else:
            den = L
            for a in range(pd):
                den *= dens[a][tidx[a]]
            out.append(tuple(F(c, den) for c in vec))
    if selfcheck and out:
        for pos in (0, len(out) - 1):
            idx = []
            rem = pos
            for n in reversed(shp):
                idx.append(rem % n)
                rem //= n
            idx.reverse()
            prm = [psets[a][idx[a]] for a in range(pd)]
            if out[pos] is not None:
                ref = R.eval_point(d, prm)
                assert tuple(ref) == tuple(out[pos]), "grid_eval disagrees with refmodel.eval_point at %s" % (prm,)
    return out


def malformed(d, dim=None):
    """None if d is a well formed definition (optionally with points of `dim` coordinates), else a description"""
    if len(d['P']) != prod(d['sizes']):
        return 'number of control points %d != product of sizes %s' % (len(d['P']), list(d['sizes']))
    dim = dim if dim is not None else len(d['P'][0])
    if any(len(p) != dim for p in d['P']):
        return 'control points of differing / wrong dimension'
    for U, n, p in zip(d['kvs'], d['sizes'], d['degrees']):
        if len(U) != n + p + 1:
            return 'knot vector length %d != size %d + degree %d + 1' % (len(U), n, p)
        if n < p + 1:
            return 'fewer than degree+1 control points'
        if any(x > y for x, y in zip(U, U[1:])):
            return 'knot vector not sorted'
        if not U[p] < U[n]:
            return 'empty parametric domain'
    return None


def same_shape(ctx, obligation, d_new, psets_new, d_old, psets_old, scale, case, feats, tol=TOL):
    """judges 'definition d_new at psets_new gives the points of definition d_old at psets_old' (one transition).
    Reports the worst parameter combination as observed/expected."""
    bad = malformed(d_new, len(d_old['P'][0]))
    if bad:
        return ctx.check(obligation, False, case, feats, 'a well formed definition', bad, 'result is not a well formed shape')
    new = grid_eval(d_new, psets_new)
    old = grid_eval(d_old, psets_old)
    assert len(new) == len(old)
    ctx.extra['points_compared'] += len(new)
    worst, wi = -1.0, 0
    for i, (a, b) in enumerate(zip(new, old)):
        if a is None or b is None or len(a) != len(b):
            worst, wi = float('inf'), i
            break
        for x, y in zip(a, b):
            dd = abs(float(x - y)) / max(1.0, float(scale), abs(float(y)))
            if dd > worst:
                worst, wi = dd, i
    if not new:
        return ctx.check(obligation, False, case, feats, 'a non-empty parameter grid', 'empty grid')
    shp = [len(s) for s in psets_new]
    idx, rem = [], wi
    for n in reversed(shp):
        idx.append(rem % n)
        rem //= n
    idx.reverse()
    at_new = [float(psets_new[a][idx[a]]) for a in range(len(shp))]
    at_old = [float(psets_old[a][idx[a]]) for a in range(len(shp))]
    obs = None if new[wi] is None else [float(x) for x in new[wi]]
    exp = None if old[wi] is None else [float(x) for x in old[wi]]
    if worst == float('inf'):
        return ctx.check(obligation, False, case, feats, dict(point=exp, at=at_old), dict(point=obs, at=at_new),
                         'point undefined (vanishing weight function) or of another dimension')
    if worst > ctx.maxdisc[obligation]:
        ctx.maxdisc[obligation] = worst
    return ctx.check(obligation, worst <= tol, case, feats, dict(point=exp, at=at_old), dict(point=obs, at=at_new),
                     'worst of %d compared points, relative discrepancy %.3g' % (len(new), worst))


def affine_sets(psets, src, dst):
    """image of parameter sets under the per-direction affine maps src[a]=(lo,hi) -> dst[a]=(lo,hi)"""
    out = []
    for ps, (a0, a1), (b0, b1) in zip(psets, src, dst):
        out.append([b0 + (b1 - b0) * (u - a0) / (a1 - a0) for u in ps])
    return out


def max_abs(d):
    return float(max([abs(c) for p in d['P'] for c in p] + [1]))


def geo_scale(d):
    """magnitude of the (projected) control points"""
    if not d['rational']:
        return max_abs(d)
    m = 1.0
    for p in d['P']:
        if p[-1] != 0:
            m = max(m, max(abs(float(c / p[-1])) for c in p[:-1]))
    return m


# ----------------------------------------------------------------------------------------
# shared alphabets
# ----------------------------------------------------------------------------------------

def insertion_params(p, kv):
    """[(u, s)]: every interior knot (each distinct value once), every span midpoint, 1/3 of the domain;
    s = current multiplicity (exact float count)"""
    n = len(kv) - p - 1
    lo, hi = kv[p], kv[n]
    out = []
    for i in range(p, n):
        a, b = kv[i], kv[i + 1]
        if a < b:
            if a > lo:
                out.append(a)
            out.append(a + (b - a) / 2.0)
    out.append(lo + (hi - lo) / 3.0)
    seen, res = set(), []
    for u in out:
        if u not in seen:
            seen.add(u)
            res.append((u, fmult(kv, u)))
    return res


def quick_reps(p):
    """3 per-direction representatives: Bezier, one simple knot, two knots (the second of multiplicity max(1,p-1))"""
    return [A.clamped_kv(p, []), A.clamped_kv(p, [(0.5, 1)]), A.clamped_kv(p, [(0.25, 1), (0.5, max(1, p - 1))])]


def variants(kvs, degrees, tier, pdim):
    lowdim = 3 if pdim == 3 else 2
    out = [A.shape_desc(kvs, degrees, False, 3, 'coded'),
           A.shape_desc(kvs, degrees, True, 3, 'coded', 'coded')]
    if tier == 'thorough':
        out.append(A.shape_desc(kvs, degrees, True, lowdim, 'seeded', 'seeded'))
    return out


def curve_shapes(tier):
    q = tier == 'quick'
    plan = [(1, 2, 4), (2, 2, 4), (3, 2, 4)] if q else [(1, 3, 8), (2, 3, 8), (3, 3, 4), (3, 2, 8), (4, 2, 4), (5, 2, 4)]
    seen, out = set(), []
    for p, B, G in plan:
        for kv in A.clamped_kvs(p, B, G):
            if (p, tuple(kv)) in seen:
                continue
            seen.add((p, tuple(kv)))
            out.extend(variants([kv], [p], tier, 1))
    return out + tall_curve_shapes(tier) + variety_shapes(tier, pdims=(1,))


def tall_curve_shapes(tier):
    """the tall thin slice (alphabet.tall_kvs): few knot vectors, degree up to 6, up to 12 (thorough 20) control points"""
    out = []
    for p, kv in A.tall_kvs(1 if tier == 'quick' else 2):
        out.append(A.shape_desc([kv], [p], False, 3, 'coded', tall=True))
        out.append(A.shape_desc([kv], [p], True, 3, 'coded', 'coded', tall=True))
    return out


def tall_surface_shapes(tier):
    """a tall direction (high degree or many control points) paired with a small one, in both orders"""
    small = [(1, A.clamped_kv(1, [(0.5, 1)])), (2, A.clamped_kv(2, []))]
    tall = [t for t in A.tall_kvs(1 if tier == 'quick' else 2, degrees=(1, 3, 4, 5),
                                  counts=(7, 9) if tier == 'quick' else (7, 8, 9, 12))
            if len(set(t[1])) > 2 or t[0] >= 4]
    out = []
    for i, (p, kv) in enumerate(tall):
        sp, skv = small[i % 2]
        for order in (0, 1):
            kvs, degs = ([kv, skv], [p, sp]) if order == 0 else ([skv, kv], [sp, p])
            rat = (i + order) % 2 == 1
            out.append(A.shape_desc(kvs, degs, rat, 3, 'coded', 'coded', tall=True))
    return out


def variety_shapes(tier, pdims=(1, 2, 3), dims=(4, 5), types=True):
    """the data-variety slice: a few small knot structures x everything that leaves the world of small integer coordinates
    in 2-D/3-D lists, dyadic knots in [0,1] and weights between 1/4 and 8 - negative / fractional / huge / tiny / zero /
    coincident / collinear coordinates, dimension 4 and 5 (1 is rejected by the library), tuples and ints as input types, weights < 0.1 and > 100 or all
    equal, decimal and 1/7 knots, knot ranges [-5,-1], [100,200], [0,1e-3].  One respect at a time."""
    q = tier == 'quick'
    out = []
    base = {1: [([A.clamped_kv(2, [(0.5, 1)])], [2]), ([A.clamped_kv(3, [(0.25, 1), (0.5, 2)])], [3])],
            2: [([A.clamped_kv(2, [(0.5, 1)]), A.clamped_kv(1, [(0.25, 1)])], [2, 1]), ([A.clamped_kv(1, []), A.clamped_kv(3, [(0.5, 2)])], [1, 3])],
            3: [([A.clamped_kv(1, []), A.clamped_kv(2, [(0.5, 1)]), A.clamped_kv(1, [(0.25, 1)])], [1, 2, 1])]}
    for pd in pdims:
        for kvs, degs in (base[pd][:1] if q and pd > 1 else base[pd]):
            lowdim = 3 if pd == 3 else 2
            for net in A.VARIETY_NETS:
                for rat in (False, True):
                    out.append(A.shape_desc(kvs, degs, rat, 3, net, 'coded', variety='net:' + net))
            for wk in A.VARIETY_WEIGHTS:
                out.append(A.shape_desc(kvs, degs, True, 3, 'coded', wk, variety='weights:' + wk))
                out.append(A.shape_desc(kvs, degs, True, lowdim, 'negfrac', wk, variety='weights:' + wk))
            for dim in dims:
                for rat in (False, True):
                    out.append(A.shape_desc(kvs, degs, rat, dim, 'coded', 'coded', variety='dim:%d' % dim))
            if types:
                for it in ('tuples', 'ints'):
                    for rat in (False, True):
                        out.append(A.shape_desc(kvs, degs, rat, 3, 'coded', 'ones' if it == 'ints' else 'coded', variety='types:' + it,
                                                input_types=it))
                    # kept as given (normalize_kv=False): the object then holds the caller's tuple / ints themselves
                    out.append(A.shape_desc([A.affine_kv(k, 1.0, 2.0) for k in kvs], degs, it == 'tuples', 3, 'coded', 'coded',
                                            variety='types:' + it, input_types=it, normalize_kv=False))
        # knot variety: per direction the same odd vector family (first direction odd, the others small and dyadic)
        p0 = base[pd][0][1][0]
        for kv, norm in A.odd_kvs(p0, 1 if q else 2):
            kvs = [kv] + [list(k) for k in base[pd][0][0][1:]]
            if not norm:
                kvs = [kv] + [A.affine_kv(k, 1.0, 2.0) for k in base[pd][0][0][1:]]
            for rat in (False, True):
                out.append(A.shape_desc(kvs, base[pd][0][1], rat, 3, 'coded', 'coded', normalize_kv=norm, variety='knots'))
    return out + mixed_shapes(tier, pdims) + pairwise_shapes(tier, pdims) + zero_shapes(tier, pdims)


def tiny_span_shapes(tier):
    """knot spans of one ulp, 1e-9, 1e-8 and 2^-40 (valid non-decreasing vectors; evaluation only - knot operations on
    such vectors are the business of the library's multiplicity tolerance, see the near-knot findings)"""
    out = []
    for p in (1, 2, 3):
        for interior in ([0.3, 0.1 + 0.2], [1e-9, 0.5], [0.5, 0.5 + 1e-8], [0.25, 0.25 + 2.0 ** -40, 0.75]):
            kv = [0.0] * (p + 1) + interior + [1.0] * (p + 1)
            for rat in (False, True):
                out.append(A.shape_desc([kv], [p], rat, 3, 'coded', 'coded', variety='tiny_span'))
        kv = [0.0] * (p + 1) + [0.3, 0.1 + 0.2] + [1.0] * (p + 1)
        out.append(A.shape_desc([kv, A.clamped_kv(1, [(0.5, 1)])], [p, 1], p == 2, 3, 'coded', 'coded', variety='tiny_span'))
        out.append(A.shape_desc([A.clamped_kv(2, []), kv], [2, p], p != 2, 3, 'coded', 'coded', variety='tiny_span'))
    return out


PAIRWISE_FACTORS = [
    ('degree', [1, 2, 3, 5]),
    ('size', ['min', 'small', 'large']),
    ('knots', ['uniform', 'repeated', 'odd', 'range_kept']),
    ('weights', [None, 'coded', 'equal5', 'extreme']),
    ('net', ['coded', 'negfrac', 'large', 'tiny', 'coincident']),
    ('dim', [3, 2, 4]),
    ('types', [None, 'tuples', 'ints']),
]


def pairwise_rows():
    """a covering array: every pair of levels of every two factors of PAIRWISE_FACTORS occurs in at least one row (greedy,
    deterministic; about 25 rows instead of the 8640 of the full product)"""
    import itertools
    names = [n for n, _ in PAIRWISE_FACTORS]
    levels = [l for _, l in PAIRWISE_FACTORS]
    todo = set()
    for a, b in itertools.combinations(range(len(names)), 2):
        for x in range(len(levels[a])):
            for y in range(len(levels[b])):
                todo.add((a, x, b, y))
    rows = []
    while todo:
        best, gain = None, -1
        # candidates: start from an uncovered pair, complete the other factors greedily
        a, x, b, y = min(todo)
        row = {a: x, b: y}
        for f in range(len(names)):
            if f in row:
                continue
            bl, bg = 0, -1
            for lv in range(len(levels[f])):
                g = sum(1 for (p, q) in row.items() if (min(p, f), (q if p < f else lv), max(p, f), (lv if p < f else q)) in todo)
                if g > bg:
                    bl, bg = lv, g
            row[f] = bl
        for p, q in itertools.combinations(sorted(row), 2):
            todo.discard((p, row[p], q, row[q]))
        rows.append({names[f]: levels[f][row[f]] for f in range(len(names))})
    return rows


def _pairwise_direction(p, size, knots):
    """(knot vector, normalize_kv) of one direction"""
    n = p + 1 if size == 'min' else (p + 3 if size == 'small' else (9 if p <= 3 else 12))
    m = n - p - 1
    if m == 0 or knots == 'uniform':
        kv = A.uniform_kv(p, n)
    elif knots == 'repeated':
        interior, vals, i, need = [], [0.25, 0.5, 0.75, 0.125, 0.875, 0.375, 0.625], 0, m
        while need > 0:
            k = min(2 if i % 2 == 0 else 1, p, need)
            interior.append((vals[i], k))
            need -= k
            i += 1
        kv = A.clamped_kv(p, interior)
    elif knots == 'odd':
        kv = A.clamped_kv(p, [((i + 1.0) / (m + 1.0) * 0.97 + 0.013, 1) for i in range(m)])
    else:
        kv = A.uniform_kv(p, n)
    if knots == 'range_kept':
        return A.affine_kv(kv, -5.0, 4.0), False
    return kv, True


def pairwise_shapes(tier, pdims=(1, 2, 3)):
    """shapes from the covering array: every PAIR of unusual respects (degree x size x knot kind x weights x coordinates x
    dimension x input types) occurs together in some curve and in some surface; volumes take the rows with small directions"""
    out = []
    rows = pairwise_rows()
    for i, r in enumerate(rows):
        p = r['degree']
        kv, norm = _pairwise_direction(p, r['size'], r['knots'])
        rat = r['weights'] is not None
        extra = dict(variety='pairwise', tall=(r['size'] == 'large' or p >= 5))
        if r['types']:
            extra['input_types'] = r['types']
        if not norm:
            extra['normalize_kv'] = False
        if 1 in pdims:
            out.append(A.shape_desc([kv], [p], rat, r['dim'], r['net'], r['weights'] or 'ones', **extra))
        small = [(1, A.clamped_kv(1, [(0.5, 1)])), (2, A.clamped_kv(2, []))][i % 2]
        skv = small[1] if norm else A.affine_kv(small[1], 1.0, 2.0)
        if 2 in pdims and r['dim'] != 2:
            kvs, degs = ([kv, skv], [p, small[0]]) if i % 2 == 0 else ([skv, kv], [small[0], p])
            out.append(A.shape_desc(kvs, degs, rat, r['dim'], r['net'], r['weights'] or 'ones', **extra))
        if 3 in pdims and r['size'] != 'large' and p <= 3 and r['dim'] == 3 and i % 2 == 0:
            s2 = A.clamped_kv(1, []) if norm else A.affine_kv(A.clamped_kv(1, []), 1.0, 2.0)
            out.append(A.shape_desc([skv, kv, s2], [small[0], p, 1], rat, 3, r['net'], r['weights'] or 'ones', **extra))
    return out


def zero_shapes(tier, pdims=(1, 2, 3)):
    """0.0 in every role it can play on a knot range kept as given: an interior knot (range [-1,1], knot at the middle), the
    end of the domain (range [-2,0]) and its start (range [0,2]); plain coordinates otherwise.  ("if u:" instead of
    "if u is not None", "x or default" ...)"""
    out = []
    for lo, s_ in ((-1.0, 2.0), (-2.0, 2.0), (0.0, 2.0)):
        def z(kv):
            return A.affine_kv(kv, lo, s_)
        for rat in (False, True):
            if 1 in pdims:
                out.append(A.shape_desc([z(A.clamped_kv(2, [(0.5, 1)]))], [2], rat, 3, 'coded', 'coded', normalize_kv=False, variety='zero'))
                out.append(A.shape_desc([z(A.clamped_kv(3, [(0.25, 1), (0.5, 2)]))], [3], rat, 3, 'coded', 'coded', normalize_kv=False, variety='zero'))
            if 2 in pdims:
                out.append(A.shape_desc([z(A.clamped_kv(2, [(0.5, 1)])), z(A.clamped_kv(1, [(0.5, 1)]))], [2, 1], rat, 3, 'coded', 'coded',
                                        normalize_kv=False, variety='zero'))
            if 3 in pdims and (rat or tier != 'quick'):
                out.append(A.shape_desc([z(A.clamped_kv(1, [])), z(A.clamped_kv(1, [(0.5, 1)])), z(A.clamped_kv(2, [(0.5, 1)]))], [1, 1, 2], rat, 3,
                                        'coded', 'coded', normalize_kv=False, variety='zero'))
    return out


def mixed_shapes(tier, pdims=(1, 2, 3)):
    """a few shapes that leave the small world in several respects at once (the slices above vary one respect at a time):
    high degree / many control points together with unusual coordinates, weights, knot ranges kept as given and input types"""
    out = []
    u = A.uniform_kv
    if 1 in pdims:
        out.append(A.shape_desc([A.affine_kv(u(5, 9), -5.0, 4.0)], [5], True, 3, 'negfrac', 'extreme', normalize_kv=False,
                                input_types='tuples', variety='mixed', tall=True))
        out.append(A.shape_desc([A.clamped_kv(4, [])], [4], True, 4, 'large', 'equal5', variety='mixed', tall=True))
        out.append(A.shape_desc([A.affine_kv(A.clamped_kv(3, [(0.25, 1), (0.5, 2), (0.75, 3)]), 100.0, 100.0)], [3], False, 2, 'tiny',
                                normalize_kv=False, variety='mixed'))
    if 2 in pdims:
        out.append(A.shape_desc([A.affine_kv(u(4, 8), 100.0, 100.0), A.affine_kv(A.clamped_kv(1, [(0.5, 1)]), -1.0, 4.0)], [4, 1], True, 3,
                                'tiny', 'smallw', normalize_kv=False, variety='mixed', tall=True))
        out.append(A.shape_desc([A.clamped_kv(2, [(0.5, 2)]), u(3, 9)], [2, 3], True, 3, 'coincident', 'extreme', input_types='tuples',
                                variety='mixed', tall=True))
    if 3 in pdims:
        out.append(A.shape_desc([A.affine_kv(A.clamped_kv(1, []), 1.0, 2.0), A.affine_kv(A.clamped_kv(2, [(0.5, 1)]), 1.0, 2.0),
                                 A.affine_kv(A.clamped_kv(1, [(0.25, 1)]), 1.0, 2.0)], [1, 2, 1], True, 3, 'negfrac', 'extreme',
                                normalize_kv=False, input_types='ints', variety='mixed'))
    return out


def huge_shapes(tier, pdims=(1, 2, 3)):
    """one shape per parametric dimension with more than 256 control points in total and more than 9 in one direction
    (dyadic uniform knots): sizes at which small-integer caching, one-digit string order, 8/16/64-element fast paths and
    similar size thresholds of an implementation stop coinciding with the general code.  Rational and non-rational."""
    out = []
    u = A.uniform_kv
    if 1 in pdims:
        for rat in (False, True):
            out.append(A.shape_desc([u(2, 258)], [2], rat, 3, 'coded', 'coded', tall=True, huge=True))
    if 2 in pdims:
        for rat in (False, True):
            out.append(A.shape_desc([u(1, 17), u(2, 18)], [1, 2], rat, 3, 'coded', 'coded', tall=True, huge=True))
        out.append(A.shape_desc([u(3, 19), u(1, 17)], [3, 1], True, 3, 'coded', 'coded', tall=True, huge=True))
    if 3 in pdims:
        for rat in (False, True):
            out.append(A.shape_desc([u(1, 9), u(1, 5), u(2, 6)], [1, 1, 2], rat, 3, 'coded', 'coded', tall=True, huge=True))
        out.append(A.shape_desc([u(1, 3), u(2, 4), u(1, 33)], [1, 2, 1], True, 3, 'coded', 'coded', tall=True, huge=True))
    return out


def nonnormalised_shapes(tier, pdims=(1, 2)):
    """affine images of representative knot vectors kept as given (normalize_kv=False)"""
    out = []
    aff = A.AFFINE[1:] if tier == 'thorough' else [A.AFFINE[2], A.AFFINE[3]]
    for a, s in aff:
        if 1 in pdims:
            for p in (1, 2, 3):
                for kv in quick_reps(p)[1:]:
                    for rat in (False, True):
                        out.append(A.shape_desc([A.affine_kv(kv, a, s)], [p], rat, 3, 'coded', 'coded', normalize_kv=False))
        if 2 in pdims:
            for pu, pv in ((1, 2), (2, 3), (3, 1)):
                ku = A.affine_kv(quick_reps(pu)[2], a, s)
                kv = A.affine_kv(quick_reps(pv)[1], 1.0, 2.0)
                for rat in (False, True):
                    out.append(A.shape_desc([ku, kv], [pu, pv], rat, 3, 'coded', 'coded', normalize_kv=False))
    if 2 in pdims:
        # cross-domain surfaces: the end of one direction's domain is an interior knot / split parameter of the other direction
        for pu, pv in ((2, 1), (1, 2)):
            for rat in (False, True):
                out.append(A.shape_desc([A.clamped_kv(pu, [(0.5, 1)]), A.affine_kv(A.clamped_kv(pv, [(0.25, 1), (0.5, 1)]), 0.0, 2.0)], [pu, pv],
                                        rat, 3, 'coded', 'coded', normalize_kv=False, crossdomain=True))
                out.append(A.shape_desc([A.affine_kv(A.clamped_kv(pu, [(0.25, 1), (0.5, 1)]), 0.0, 2.0), A.clamped_kv(pv, [(0.5, 1)])], [pu, pv],
                                        rat, 3, 'coded', 'coded', normalize_kv=False, crossdomain=True))
    return out


def _union(a, b):
    return a + [x for x in b if x not in a]


def surface_shapes(tier):
    q = tier == 'quick'
    out = []
    degs = [1, 2, 3]
    for pu, pv in itertools.product(degs, degs):
        ru = quick_reps(pu) if q else _union(A.rep_kvs(pu, 1), quick_reps(pu))
        rv = quick_reps(pv) if q else _union(A.rep_kvs(pv, 1), quick_reps(pv))
        for ku in ru:
            for kv in rv:
                if len(ku) - pu == len(kv) - pv:
                    continue            # pairwise different sizes: any u/v mix-up changes an index
                out.extend(variants([ku, kv], [pu, pv], tier, 2))
    return out + tall_surface_shapes(tier) + variety_shapes(tier, pdims=(2,))


def volume_shapes(tier):
    q = tier == 'quick'
    out = []
    triples = list(itertools.product([1, 2], repeat=3))
    if not q:
        triples += list(itertools.permutations([1, 2, 3]))
    for degs in triples:
        reps = [quick_reps(p) for p in degs]
        for kvs in itertools.product(*reps):
            sz = [len(k) - p - 1 for k, p in zip(kvs, degs)]
            if len(set(sz)) < 3:
                continue
            if sum(sz) > (10 if q else 12):
                continue
            vs = variants(list(kvs), list(degs), tier, 3)
            out.extend(vs if max(degs) <= 2 else vs[:2])
    return out + variety_shapes(tier, pdims=(3,))


def shape_weight(d):
    w = 1
    for kv, p in zip(d['kvs'], d['degrees']):
        w *= len(kv) * (p + 1)
    return w * (4 if d['rational'] else 1)


def nonempty_subsets(n):
    out = []
    for k in range(1, n + 1):
        out.extend(list(c) for c in itertools.combinations(range(n), k))
    return out
